"""Beyond the listed properties: bindings of specification modules that no listed property owns.

  ./check X01     EnvSpecView.tla  (EnvSpec.markers / as_dict / from_spec / Implementation.parse, coherent with the
                  wheel view of C08)        MC + B1: every dumped view is replayed on the real EnvSpec
  ./check X02     marker grammar acceptance (the sibling of C17 for markers; exploration): generated marker texts under 15
                  named mutations; parse_marker accepts what packaging accepts and raises InvalidMarker, and nothing else,
                  on what packaging rejects

  ./check X03     PlatformFamilies.tla  (FreeBSD / NetBSD / OpenBSD / DragonFly / Haiku / Illumos / Generic platforms:
                  Platform.__str__ / parse / compatible_tags / markers with the named deviations)   MC + B1: every state of the
                  grid machine and every spelled name of the names machine is replayed on the real Platform

These are NOT registered in MANIFEST.json (the property list is fixed); they print `DRIFT extra=<id> ...` and exit 1
when the code leaves the specification, and write evidence-extra/<id>.json.  Nothing here can raise a VIOLATION.
"""
from __future__ import annotations

import json
import multiprocessing as mp
import os
import time

from . import plat_iface, tla
from .check_wheel import BASE, _cfg, _grid_and_pairs, _split, abi_tag, build_envspec, py_tag
from .engine import VERIF, seed_from_env

OUT = os.path.join(VERIF, "evidence-extra")
VIEW_INVS = ["PinnedExact", "PythonCoherent", "ImplementationCoherent", "WheelViewAgrees", "DictRoundTrip"]
IMPL = {"cp": ("cpython", "CPython"), "pp": ("pypy", "PyPy"), "pt": ("pyston", "Pyston")}


def _view_chunk(args):
    states, grid, pairs = args
    from packaging.version import Version

    from dep_logic.tags import EnvSpec
    from dep_logic.tags.platform import Platform
    Platform.is_current = lambda self: False          # markers() of a target platform, whatever machine runs the check
    drift, n = [], 0
    for st in states:
        e, mk = st["e"], st["mk"]
        ctx = {"view": e}
        try:
            plat = plat_iface.build_platform(e["plat"]) if e["plat"]["os"] else None
            env = build_envspec(e["rp"], e["set"], grid, plat)
            real = env.markers()
        except Exception as ex:  # noqa: BLE001
            drift.append((f"X01:markers:raises-{type(ex).__name__}", repr(ex), ctx))
            continue
        n += 1
        want: dict[str, str] = {}
        if mk["has_python"]:
            x, y, z = mk["python_full_version"]
            want["python_version"] = f"{mk['python_version'][0]}.{mk['python_version'][1]}"
            want["python_full_version"] = f"{x}.{y}.{z}"
        if mk["has_platform"]:
            want.update({k: mk[k] for k in ("os_name", "sys_platform", "platform_machine", "platform_system")})
            want.update(platform_release="", platform_version="")
        if mk["has_impl"]:
            want.update(implementation_name=mk["implementation_name"], platform_python_implementation=mk["platform_python_implementation"])
        got = dict(real)
        if "python_full_version" in got and "python_full_version" in want and Version(got["python_full_version"]) == Version(want["python_full_version"]):
            got["python_full_version"] = want["python_full_version"]        # "3.9" and "3.9.0" are the same version
        if got != want:
            keys = sorted(k for k in set(got) | set(want) if got.get(k) != want.get(k))
            drift.append((f"X01:markers:differs({','.join(keys)[:60]})", f"{env}: markers() = {real} ; specification {want}", ctx))
        # the marker view is usable: a python-only marker evaluates on it like on the pinned version
        if mk["has_python"]:
            from dep_logic.markers import parse_marker
            v = Version(want["python_full_version"])
            for text, exp in ((f'python_version == "{want["python_version"]}"', True),
                              (f'python_full_version >= "{want["python_full_version"]}"', True),
                              (f'python_full_version > "{want["python_full_version"]}"', False),
                              (f'python_version < "{v.major}.{v.minor}"', False)):
                try:
                    if parse_marker(text).evaluate(dict(real)) != exp:
                        drift.append(("X01:markers:python-marker-disagrees", f"{env}: {text} evaluates {not exp} on markers()", ctx))
                except Exception as ex:  # noqa: BLE001
                    drift.append((f"X01:markers:evaluate-raises-{type(ex).__name__}", f"{text}: {ex!r}", ctx))
            # wheel view agrees (the specification's WheelViewAgrees on the code)
            if e["set"]["impl"] in ("", "cp"):
                flag = "t" if e["set"]["ft"] == 1 else ""
                for t, a in pairs:
                    if t["impl"] == "cp" and a["kind"] == "concrete" and a["impl"] == "cp" and (a["major"], a["minor"]) == (t["major"], t["minor"]) and a["flag"] == flag:
                        ok = env.compatibility([py_tag(t)], [abi_tag(a)], ["any"]) is not None
                        if ok != (want["python_version"] == f"{t['major']}.{t['minor']}"):
                            drift.append(("X01:views:wheel-vs-markers", f"{env}: {py_tag(t)}-{abi_tag(a)} accepted={ok} but python_version={want['python_version']}", ctx))
        # serialisation round trip
        try:
            d = env.as_dict()
            if ("platform" in d) != mk["has_platform"] or ("implementation" in d) != mk["has_impl"] or ("gil_disabled" in d) != mk["has_impl"]:
                drift.append(("X01:as_dict:keys", f"{env}: as_dict() = {d}", ctx))
            if e["rp"]["k"] == "empty":           # the specification's FromSpecAccepts: refused, with the library's own error
                from dep_logic.specifiers import InvalidSpecifier
                try:
                    EnvSpec.from_spec(**d)
                    drift.append(("X01:from_spec(as_dict):accepts-empty", f"{env}", ctx))
                except InvalidSpecifier:
                    pass
                continue
            back = EnvSpec.from_spec(**d)
            same = back.requires_python == env.requires_python and back.platform == env.platform and back.implementation == env.implementation
            if not same or back != env or back.markers() != real or str(back) != str(env):
                drift.append(("X01:from_spec(as_dict):differs", f"{env} -> {d} -> {back}", ctx))
        except Exception as ex:  # noqa: BLE001
            drift.append((f"X01:from_spec(as_dict):raises-{type(ex).__name__}", f"{env}: {ex!r}", ctx))
    return n, drift


def run_x01(tier: str):
    import shutil
    import tempfile
    consts = dict(BASE, Minors="<- MinorsView", BoundSel=("<- BoundsView" if tier == "thorough" else "<- BoundsViewQuick"), PlatSel="<- PlatsView")
    tmp = tempfile.mkdtemp(prefix="verif_x01_")
    cov: dict = {}
    drift: list = []
    try:
        cfgp = os.path.join(tmp, "c.cfg")
        open(cfgp, "w").write(_cfg("ViewSpec", consts, VIEW_INVS))
        d = os.path.join(tmp, "d")
        r = tla.run_tlc("EnvSpecViewMC.tla", cfgp, workers=16, args=["-dump", d])
        if r.violated:
            drift.append((f"X01:spec:{r.violated}", f"TLC: invariant {r.violated} violated", {"tlc_tail": r.out[-1500:]}))
            states = []
        else:
            tla.require_ok(r, "TLC EnvSpecView")
            states = tla.load_dump(d + ".dump")
        cov["tlc_runs"] = [{"module": "EnvSpecViewMC", "spec": "ViewSpec", "constants": {k: str(v) for k, v in consts.items()},
                            "invariants": VIEW_INVS, "distinct": r.distinct, "wall_s": round(r.wall, 1)}]
        grid, pairs = _grid_and_pairs(r.out)
    finally:
        shutil.rmtree(tmp, ignore_errors=True)
    vecs = [s for s in states if s["phase"] == "viewed"]
    total = 0
    with mp.Pool(16) as pool:
        for n, dr in pool.map(_view_chunk, [(ch, grid, pairs) for ch in _split(vecs)]):
            total += n
            drift += dr
    # Implementation.parse: the error cases of the specification's ImplParseOk
    from dep_logic.tags import Implementation, UnsupportedImplementation
    for name in ("cpython", "pypy", "pyston", "jython", "CPython", ""):
        for gil in (False, True):
            exp = name in ("cpython", "pypy", "pyston") and (not gil or name == "cpython")
            try:
                Implementation.parse(name, gil)
                ok = True
            except UnsupportedImplementation:
                ok = False
            except Exception as ex:  # noqa: BLE001
                drift.append((f"X01:Implementation.parse:raises-{type(ex).__name__}", f"{name!r}, {gil}", {}))
                continue
            total += 1
            if ok != exp:
                drift.append(("X01:Implementation.parse:acceptance", f"parse({name!r}, gil_disabled={gil}) accepted={ok}, specification {exp}", {}))
    cov.update(states=r.distinct, views_replayed=len(vecs), traces_validated_against_impl=total)
    return cov, drift


# --------------------------------------------------------------------------- X02: marker grammar acceptance
MARKER_MUTATIONS = [
    ("drop-quote", lambda t, r: t.replace('"', "", 1)),
    ("bad-operator", lambda t, r: t.replace("==", "=>", 1) if "==" in t else t.replace(">=", "=>", 1) if ">=" in t else t + " =>"),
    ("unknown-variable", lambda t, r: t.replace("os_name", "os_nam").replace("sys_platform", "sys_platfrom").replace("python_version", "pythonversion") if any(v in t for v in ("os_name", "sys_platform", "python_version")) else "nonesuch == \"x\" and " + t),
    ("dangling-and", lambda t, r: t + " and"),
    ("dangling-or", lambda t, r: "or " + t),
    ("unbalanced-open", lambda t, r: "(" + t),
    ("unbalanced-close", lambda t, r: t + ")"),
    ("double-connective", lambda t, r: t.replace(" and ", " and and ", 1) if " and " in t else t.replace(" or ", " or or ", 1) if " or " in t else t + " and or " + t),
    ("empty-token-inside", lambda t, r: t + " and <empty>"),
    ("two-literals", lambda t, r: '"a" == "b" and ' + t),
    ("two-variables", lambda t, r: "os_name == sys_platform and " + t),
    ("trailing-garbage", lambda t, r: t + " ;"),
    ("single-quotes", lambda t, r: t.replace('"', "'")),               # valid: PEP 508 allows both
    ("extra-parens", lambda t, r: "((" + t + "))"),                       # valid
    ("no-spaces", lambda t, r: t.replace(' == "', '=="').replace(' != "', '!="')),   # valid
]


def _x02_chunk(seeds):
    import random

    from packaging.markers import InvalidMarker as PkgInvalid
    from packaging.markers import Marker as PkgMarker

    from dep_logic.markers import InvalidMarker, parse_marker

    from . import drive_marker
    drift, n, rejected = [], 0, 0
    for seed in seeds:
        rng = random.Random(seed)
        base = drive_marker.gen_marker(rng, drive_marker.pick_vars(rng), rng.choice([0, 1, 1, 2]))
        name, mut = MARKER_MUTATIONS[seed % len(MARKER_MUTATIONS)]
        text = mut(base, rng)
        try:
            PkgMarker(text)
            ok = True
        except PkgInvalid:
            ok = False
        except Exception:  # noqa: BLE001
            continue
        n += 1
        val, exc = drive_marker.timed(parse_marker, text)
        if exc == "Timeout":
            continue
        if ok:
            if exc:
                drift.append((f"X02:parse_marker({name}):raises-{exc}-on-valid", f"{text!r} is accepted by packaging", {"text": text}))
        else:
            rejected += 1
            if not exc:
                drift.append((f"X02:parse_marker({name}):accepts-invalid", f"{text!r} -> {val!s}; packaging rejects it", {"text": text}))
            elif exc != InvalidMarker.__name__:
                drift.append((f"X02:parse_marker({name}):raises-{exc}-instead-of-InvalidMarker", f"{text!r}", {"text": text}))
    return n, drift, rejected


def run_x02(tier: str):
    seeds = [seed_from_env() * 9973 + i for i in range(30000 if tier == "thorough" else 6000)]
    total = rej = 0
    drift: list = []
    with mp.Pool(16) as pool:
        for n, dr, rj in pool.map(_x02_chunk, _split(seeds)):
            total += n
            rej += rj
            drift += dr
    return {"strings": total, "rejected_by_packaging": rej, "mutations": [m for m, _ in MARKER_MUTATIONS], "traces_validated_against_impl": total}, drift


# --------------------------------------------------------------------------- X03: the other platform families
FAM_INVS = ["RoundTripExact", "DeviationsExact", "OneTag", "ParseTotal", "MarkersFixed"]


def _join(toks) -> str:
    return "_".join("".join(t) for t in toks)


def _fam_platform(c: dict):
    from dep_logic.tags import os as dl_os
    from dep_logic.tags.platform import Arch, Platform
    cls = {"freebsd": dl_os.FreeBsd, "netbsd": dl_os.NetBsd, "openbsd": dl_os.OpenBsd, "dragonfly": dl_os.Dragonfly, "haiku": dl_os.Haiku}
    arch = Arch(c["arch"])
    if c["fam"] in cls:
        return Platform(cls[c["fam"]]("".join(c["rel"])), arch)
    if c["fam"] == "illumos":
        return Platform(dl_os.Illumos("_".join(c["rel"]), c["oarch"]), arch)
    return Platform(dl_os.Generic(c["name"]), arch)


def _fam_project(p) -> dict:
    o = p.os
    fam = type(o).__name__.lower()
    if fam == "generic":
        return {"fam": "generic", "rel": "", "oarch": "", "name": o.name, "arch": p.arch.value}
    if fam == "illumos":
        return {"fam": fam, "rel": o.release, "oarch": o.arch, "name": "", "arch": p.arch.value}
    return {"fam": fam, "rel": getattr(o, "release", "?"), "oarch": "", "name": "", "arch": p.arch.value}


def _fam_parse(text: str) -> dict:
    from dep_logic.tags.platform import Platform, PlatformError
    try:
        return {"k": "ok", "cfg": _fam_project(Platform.parse(text))}
    except PlatformError:
        return {"k": "PlatformError", "cfg": None}
    except Exception as ex:  # noqa: BLE001
        return {"k": type(ex).__name__, "cfg": None}


def _want_parse(parsed: dict) -> dict:
    if parsed["k"] != "ok":
        return {"k": parsed["k"], "cfg": None}
    c = parsed["cfg"]
    return {"k": "ok", "cfg": {"fam": c["fam"], "rel": ("_".join(c["rel"]) if c["fam"] == "illumos" else "".join(c["rel"])),
                               "oarch": c["oarch"], "name": c["name"], "arch": c["arch"]}}


def run_x03(tier: str):
    import shutil
    import tempfile
    from dep_logic.tags.platform import Platform
    Platform.is_current = lambda self: False
    cov: dict = {"tlc_runs": []}
    drift: list = []
    states: dict[str, list] = {}
    tmp = tempfile.mkdtemp(prefix="verif_x03_")
    try:
        for spec, invs in (("GridSpec", FAM_INVS), ("NamesSpec", ["ParseTotal"])):
            cfgp = os.path.join(tmp, spec + ".cfg")
            open(cfgp, "w").write("\n".join([f"SPECIFICATION {spec}"] + [f"INVARIANT {i}" for i in invs] + ["CHECK_DEADLOCK FALSE"]) + "\n")
            d = os.path.join(tmp, spec)
            r = tla.run_tlc("PlatformFamilies.tla", cfgp, workers=4, args=["-dump", d])
            if r.violated:
                drift.append((f"X03:spec:{r.violated}", f"TLC: invariant {r.violated} violated in {spec}", {"tlc_tail": r.out[-1500:]}))
                states[spec] = []
                continue
            tla.require_ok(r, "TLC PlatformFamilies " + spec)
            states[spec] = tla.load_dump(d + ".dump")
            cov["tlc_runs"].append({"module": "PlatformFamilies", "spec": spec, "invariants": invs, "distinct": r.distinct, "wall_s": round(r.wall, 1)})
    finally:
        shutil.rmtree(tmp, ignore_errors=True)
    total = 0
    for st in states.get("GridSpec", []):
        c, ph = st["c"], st["phase"]
        ctx = {"state": st}
        try:
            plat = _fam_platform(c)
        except Exception as ex:  # noqa: BLE001
            drift.append((f"X03:construct:raises-{type(ex).__name__}", repr(ex), ctx))
            continue
        total += 1
        if ph == "named":                                     # action DoName: Platform.__str__
            got = str(plat)
            if got != _join(st["name"]):
                drift.append((f"X03:str({c['fam']})", f"str({plat!r}) = {got!r}; specification {_join(st['name'])!r}", ctx))
        elif ph == "parsed":                                  # action DoParse: Platform.parse(str(p))
            got, want = _fam_parse(_join(st["name"])), _want_parse(st["parsed"])
            if got != want:
                drift.append((f"X03:parse(str({c['fam']}))", f"parse({_join(st['name'])!r}) -> {got}; specification {want}", ctx))
            if (got["k"] == "ok" and Platform.parse(_join(st["name"])) == plat) != (st["parsed"]["k"] == "ok" and st["parsed"]["cfg"] == c):
                drift.append((f"X03:roundtrip({c['fam']})", f"parse(str(p)) == p differs from the specification for {plat!r}", ctx))
        elif ph == "tagged":                                  # action DoTags: compatible_tags + markers
            try:
                got = list(plat.compatible_tags)
            except Exception as ex:  # noqa: BLE001
                got = [f"raises-{type(ex).__name__}"]
            want = [_join(t) for t in st["tags"]]
            if got != want:
                drift.append((f"X03:compatible_tags({c['fam']})", f"{plat!r}: {got}; specification {want}", ctx))
            mk = plat.markers()
            wantm = {"os_name": "posix", "sys_platform": "darwin" if c["fam"] == "illumos" else "linux", "platform_machine": c["arch"],
                     "platform_system": "Linux", "platform_release": "", "platform_version": ""}
            if mk != wantm:
                drift.append((f"X03:markers({c['fam']})", f"{plat!r}: {mk}; specification {wantm}", ctx))
    for st in states.get("NamesSpec", []):
        if st["phase"] != "parsed":
            continue
        total += 1
        text = _join(st["name"])
        got, want = _fam_parse(text), _want_parse(st["parsed"])
        if got != want:
            drift.append((f"X03:parse(name):{want['k']}-vs-{got['k']}", f"parse({text!r}) -> {got}; specification {want}", {"state": st}))
    cov.update(states=sum(len(v) for v in states.values()), traces_validated_against_impl=total,
               named_deviations=["ReleaseTwice", "OpenBsdDropsRelease", "IllumosUnparseable", "IllumosIsDarwin", "GenericCaseFolded", "IllumosOldHasNoTag"])
    return cov, drift


def run(pid: str, tier: str, replay: str | None = None) -> int:
    t0 = time.time()
    cov, drift = {"X01": run_x01, "X02": run_x02, "X03": run_x03}[pid](tier)
    os.makedirs(OUT, exist_ok=True)
    first: dict[str, tuple] = {}
    for sig, detail, ctx in drift:
        first.setdefault(sig, (detail, ctx))
    for sig, (detail, ctx) in sorted(first.items()):
        print(f"DRIFT extra={pid} {sig}: {detail[:300]}")
    cov["drift_cases_total"] = len(drift)
    cov["drift_signatures"] = sorted(first)
    json.dump({"extra_id": pid, "tier": tier, "seed": seed_from_env(), "coverage": cov, "wall_s": round(time.time() - t0, 2)},
              open(os.path.join(OUT, f"{pid}.json"), "w"), indent=1, default=str)
    print(f"[{pid}] {'OK' if not first else 'DRIFT'} tier={tier} wall={round(time.time() - t0, 1)}s " + " ".join(f"{k}={v}" for k, v in cov.items() if isinstance(v, int)))
    return 1 if first else 0
