"""C19: string-atom specifier algebra.  MC: specs/GenericSpec.tla (complete enumeration of the
literal pool).  B1: every dumped transition replayed on real GenericSpecifier objects under three
letter renderings; membership of EVERY candidate through `in` compared with the specification."""
from __future__ import annotations

import os
import tempfile

from . import tla
from .engine import Report

# the last rendering makes version-looking literals ("3.9", "3.9.0", "3.9.0.0"): string atoms compare as TEXT, never as versions
RENDERINGS = [{"a": "lin", "b": "ux"}, {"a": "x86", "b": "_64"}, {"a": "a", "b": "b"}, {"a": "3.9", "b": ".0"}]


def _txt(seq, ren):
    return "".join(ren[x] for x in seq)


def run(pid: str, tier: str, replay: str | None = None) -> int:
    from dep_logic.specifiers.generic import GenericSpecifier
    from dep_logic.specifiers.special import AnySpecifier, EmptySpecifier
    rep = Report(pid, tier, "model_checking")
    maxlit = 3
    tmp = tempfile.mkdtemp(prefix="verif_gs_")
    try:
        dump = os.path.join(tmp, "g")
        cfgp = os.path.join(tmp, "g.cfg")
        open(cfgp, "w").write(f"SPECIFICATION GSpec\nCONSTANT MaxLit = {maxlit}\nINVARIANT Exact\nINVARIANT Symmetric\nCHECK_DEADLOCK FALSE\n")
        r = tla.run_tlc("GenericSpec.tla", cfgp, workers=8, args=["-dump", dump])
        if r.violated:
            rep.violation(f"C19:spec:{r.violated}", f"TLC: invariant {r.violated} violated on the transcribed case table", {"tlc_tail": r.out[-2500:]})
        else:
            tla.require_ok(r, "TLC GenericSpec")
        rep.set(states=r.distinct, transitions=r.generated, constants={"MaxLit": maxlit, "literals": 15, "candidates": 31})
        states = tla.load_dump(dump + ".dump")
    finally:
        import shutil
        shutil.rmtree(tmp, ignore_errors=True)
    vectors = [s for s in states if s["op"] != "init"]
    cands = sorted({c for s in vectors for c in s["want"]} | {()}, key=lambda c: (len(c), c))
    # all candidates of the pool: sequences up to MaxLit+1
    import itertools
    cands = [c for n in range(maxlit + 2) for c in itertools.product("ab", repeat=n)]
    nontrivial = 0
    evals = 0
    drift = 0
    for vec in vectors:
        want = {tuple(c) for c in vec["want"]}
        if 0 < len(want) < len(cands):
            nontrivial += 1
        for ren in RENDERINGS:
            x = GenericSpecifier(vec["a"]["op"], _txt(vec["a"]["v"], ren))
            y = GenericSpecifier(vec["b"]["op"], _txt(vec["b"]["v"], ren))
            ctx = {"a": str(x), "b": str(y), "op": vec["op"], "rendering": ren, "spec_result": vec["res"]["k"]}
            site = f"{vec['op']}({vec['a']['op']},{vec['b']['op']})" if vec["op"] != "not" else f"not({vec['a']['op']})"
            rel = _relation(vec["a"]["v"], vec["b"]["v"])
            evals += 1
            try:
                res = (x & y) if vec["op"] == "and" else (x | y) if vec["op"] == "or" else ~x
            except NotImplementedError:
                if vec["res"]["k"] != "ni":
                    drift += 1      # allowed by the statement ("either raise NotImplementedError or ...")
                if vec["op"] == "not":
                    rep.violation(f"C19:{site}:raises-NotImplementedError", "~a must be total", ctx)
                continue
            except Exception as e:  # noqa: BLE001
                rep.violation(f"C19:{site}:{rel}:raises-{type(e).__name__}", repr(e), ctx)
                continue
            if not isinstance(res, (GenericSpecifier, EmptySpecifier, AnySpecifier)):
                rep.violation(f"C19:{site}:{rel}:result-class-{type(res).__name__}", "unexpected result class", ctx)
                continue
            try:
                got = {c for c in cands if _txt(c, ren) in res}
            except Exception as e:  # noqa: BLE001
                rep.violation(f"C19:{site}:{rel}:in-raises-{type(e).__name__}", repr(e), ctx)
                continue
            if got != want:
                kind = type(res).__name__
                wrong = sorted(got ^ want)[:4]
                rep.violation(f"C19:{site}:{rel}:membership({kind})",
                              f"{x} {vec['op']} {y} -> {res!s}: `in` disagrees on {[_txt(c, ren) for c in wrong]} (got {len(got)} members, exact set has {len(want)})",
                              dict(ctx, result=str(res)))
            if isinstance(res, EmptySpecifier) != res.is_empty() or isinstance(res, AnySpecifier) != res.is_any():
                rep.violation(f"C19:{site}:flags", "is_empty()/is_any() inconsistent with class", ctx)
        if len(rep.cov["samples"]) < 4 and vec["res"]["k"] != "ni" and vec["op"] != "not":
            rep.sample({"a": vec["a"], "b": vec["b"], "op": vec["op"], "spec_result": vec["res"], "members": len(want)})
    rep.set(traces_validated_against_impl=evals, evaluations=evals, distinct_nontrivial=nontrivial,
            algorithm_drift=drift, exhaustive=True, renderings=RENDERINGS,
            rule="all ordered pairs of (operator, literal) over literals of length<=3 on {a,b} x {and,or} plus all inversions; "
                 "non-trivial = the exact result set is neither empty nor everything")
    rep.assumptions += ["fragment renderings are codes: substring relations between rendered strings equal those between letter sequences"]
    return rep.finish()


def _relation(u, v) -> str:
    u, v = tuple(u), tuple(v)
    if u == v:
        return "equal"
    def sub(x, y):
        return any(y[i:i + len(x)] == x for i in range(len(y) - len(x) + 1))
    if not u or not v:
        return "empty-literal"
    if sub(u, v):
        return "a-in-b"
    if sub(v, u):
        return "b-in-a"
    return "unrelated"
