"""Checks C01, C05, C13(specifier half), C14(specifier half) with specs/IntervalAlgebra.tla.

  MC  TLC model-checks Pairs / Session / Laws configurations (algorithm layer => meaning layer).
  B1  every dumped Pairs (and Laws) transition is replayed on the real objects under several
      concretisations; the real result is compared with the specification's result.
  B3  random sessions on the real library, validated by TLC against SpecSessionTrace.
Verdicts are per property: each failing clause / comparison is attributed to exactly one id.
"""
from __future__ import annotations

import json
import multiprocessing as mp
import os
import random
import tempfile

from . import drive_spec, spec_iface, tla
from .engine import Report

PROPS = ("C01", "C05", "C13", "C14")


# --------------------------------------------------------------------------- B1 worker
def _s(obj) -> str:
    """str() of a library object for messages; rendering itself may be broken, never let it escape."""
    try:
        return str(obj)
    except Exception as e:  # noqa: BLE001
        return f"<{type(obj).__name__} str() raised {type(e).__name__}>"


def _kinds(v):
    return v["k"] if v["k"] != "union" else f"union{len(v['rs'])}"


COMPAT_GAPS = ["1.0", "1.5", "2.0.1", "2.0.9", "2.5", "3.0.0.1", "3.0.5", "3.5", "9"]      # final releases between the COMPAT bounds


def _probe_versions(n: int, emb: str = "plain") -> list[str]:
    """Final releases realising the probes 0..2n under the PLAIN embedding (k.0 = bound k) or the COMPAT one."""
    out = []
    for p in range(2 * n + 1):
        if emb == "compat":
            out.append(spec_iface.COMPAT[(p + 1) // 2 - 1] if p % 2 == 1 else COMPAT_GAPS[p // 2])
        else:
            out.append(f"{(p + 1) // 2}.0" if p % 2 == 1 else f"{p // 2}.5")
    return out


def _replay_chunk(args):
    vectors, n, embs, mode = args[:4]
    with_in = len(args) > 4 and args[4]
    fails = []      # (pid, signature, detail, vector)
    done = 0
    for vec in vectors:
        a, b, op, exp = vec["a"], vec["b"], vec["op"], vec["res"]
        for emb in embs:
            pts, alt = emb["points"], emb["alt"]
            try:
                if mode == "ctor":
                    x = spec_iface.build(a, pts)
                    y = spec_iface.build(b, alt)
                else:
                    from dep_logic.specifiers import parse_version_specifier
                    x = parse_version_specifier(spec_iface.text_of(a, pts)) if a["k"] != "any" else spec_iface.build(a, pts)
                    y = parse_version_specifier(spec_iface.text_of(b, alt)) if b["k"] != "any" else spec_iface.build(b, alt)
            except Exception as e:  # noqa: BLE001
                fails.append(("C01", f"C01:build({_kinds(a)},{_kinds(b)}):{type(e).__name__}", f"cannot build operands: {e!r}",
                              dict(vec, emb=emb["name"], mode=mode)))
                continue
            done += 1
            ctx = dict(vec, emb=emb["name"], points=pts, mode=mode)
            site = f"{op}({_kinds(a)},{_kinds(b)})" if op != "not" else f"not({_kinds(a)})"
            try:
                r = (x & y) if op == "and" else (x | y) if op == "or" else (~x)
            except Exception as e:  # noqa: BLE001
                fails.append(("C01", f"C01:{site}:raises-{type(e).__name__}", f"{op} raised {e!r}", ctx))
                continue
            try:
                got = spec_iface.project(r, pts)
            except spec_iface.ProjectionError as e:
                fails.append(("C01", f"C01:{site}:foreign-bound", str(e), ctx))
                continue
            ctx["got"] = got
            if with_in and emb["name"] in ("plain", "compat"):
                # C04: membership through `in` / contains() on the result agrees with the denotation
                dexp = spec_iface.den(exp, n)
                try:
                    for pnum, ver in enumerate(_probe_versions(n, emb["name"])):
                        if bool(ver in r) != (pnum in dexp) or (hasattr(r, "contains") and bool(r.contains(ver)) != (pnum in dexp)):
                            fails.append(("C04", f"C04:{site}:in-vs-exact-set",
                                          f"{op} on {spec_iface.text_of(a, pts)!r}, {spec_iface.text_of(b, alt)!r}: `{ver} in result` is {ver in r}, exact set says {pnum in dexp}", ctx))
                            break
                except Exception as e:  # noqa: BLE001
                    fails.append(("C04", f"C04:{site}:in-raises-{type(e).__name__}", repr(e), ctx))
            if spec_iface.norm_shape(got) != spec_iface.norm_shape(exp):
                if spec_iface.den(got, n) != spec_iface.den(exp, n):
                    fails.append(("C01", f"C01:{site}:den-mismatch",
                                  f"{op} on {spec_iface.text_of(a, pts)!r}, {spec_iface.text_of(b, alt)!r} gave {_s(r)} ; spec expects {spec_iface.text_of(exp, pts)!r}", ctx))
                else:
                    fails.append(("C05", f"C05:{site}:non-canonical-shape",
                                  f"{op} result {got} denotes the right set but is not the canonical value {exp}", ctx))
            # second step on the REAL result object (it may carry a shape a canonical operand never has):
            # expected sets follow from the specification's values by plain set algebra
            d = spec_iface.den(exp, n)
            full = set(range(2 * n + 1))
            if spec_iface.den(got, n) == d:
                try:
                    follow = [("not", ~r, full - d), ("and_a", r & x, d & spec_iface.den(a, n)),
                              ("or_b", r | y, d | spec_iface.den(b, n)), ("ror_a", x | r, d | spec_iface.den(a, n))]
                    for fname, fobj, fexp in follow:
                        fgot = spec_iface.den(spec_iface.project(fobj, pts), n)
                        if fgot != fexp:
                            fails.append(("C01", f"C01:{site}>>{fname}:den-mismatch",
                                          f"{op} result {_s(r)} then {fname} gives {_s(fobj)}: wrong set", dict(ctx, follow=fname)))
                        elif bool(fobj.is_empty()) != (not fexp) or bool(fobj.is_any()) != (fexp == full):
                            fails.append(("C05", f"C05:{site}>>{fname}:is_empty-is_any", f"{_s(fobj)}", dict(ctx, follow=fname)))
                        if with_in and emb["name"] in ("plain", "compat"):
                            for pnum, ver in enumerate(_probe_versions(n, emb["name"])):
                                if bool(ver in fobj) != (pnum in fexp):
                                    fails.append(("C04", f"C04:{site}>>{fname}:in-vs-exact-set",
                                                  f"{op} then {fname}: `{ver} in {_s(fobj)}` is {ver in fobj}, exact set says {pnum in fexp}", dict(ctx, follow=fname)))
                                    break
                except spec_iface.ProjectionError as e:
                    fails.append(("C01", f"C01:{site}>>follow:foreign-bound", str(e), ctx))
                except Exception as e:  # noqa: BLE001
                    fails.append(("C01", f"C01:{site}>>follow:raises-{type(e).__name__}", repr(e), ctx))
            # emptiness / universality / equality as the code reports them vs the spec's denotation
            try:
                if bool(r.is_empty()) != (len(d) == 0):
                    fails.append(("C05", f"C05:{site}:is_empty", f"is_empty()={r.is_empty()} but denotation size {len(d)}", ctx))
                if bool(r.is_any()) != (len(d) == 2 * n + 1):
                    fails.append(("C05", f"C05:{site}:is_any", f"is_any()={r.is_any()} but denotation size {len(d)}", ctx))
                fresh = spec_iface.build(exp, alt)
                e1, e2 = bool(r == fresh), bool(fresh == r)
                if spec_iface.norm_shape(got) == spec_iface.norm_shape(exp) and not (e1 and e2):
                    fails.append(("C05", f"C05:{site}:eq-fresh", f"result {_s(r)} != freshly built equal value ({e1},{e2})", ctx))
                if e1 != e2:
                    fails.append(("C13", f"C13:{site}:eq-asymmetric", f"r==fresh is {e1} but fresh==r is {e2}", ctx))
                if e1 and hash(r) != hash(fresh):
                    fails.append(("C13", f"C13:eq-hash({_kinds(got)},{_kinds(exp)})", f"{_s(r)} == fresh value but hashes differ", ctx))
                if not (r == r):
                    fails.append(("C13", f"C13:{site}:eq-irreflexive", f"{_s(r)} != itself", ctx))
                # operands: x == y  <=> same denotation
                same = spec_iface.den(a, n) == spec_iface.den(b, n)
                if bool(x == y) != same or bool(y == x) != same:
                    pid = "C13" if bool(x == y) != bool(y == x) else "C05"
                    fails.append((pid, f"{pid}:eq({_kinds(a)},{_kinds(b)}):eq-vs-den", f"{_s(x)} == {_s(y)} is {x == y}/{y == x}, same set: {same}", ctx))
                if same and hash(x) != hash(y):
                    fails.append(("C13", f"C13:eq-hash({_kinds(a)},{_kinds(b)})", f"{_s(x)} == {_s(y)} but hashes differ", ctx))
            except Exception as e:  # noqa: BLE001
                fails.append(("C05", f"C05:{site}:observer-raises-{type(e).__name__}", repr(e), ctx))
    return done, fails


def _law_sides(name, a, b, c):
    A, O = (lambda x, y: x & y), (lambda x, y: x | y)
    from dep_logic.specifiers import AnySpecifier, EmptySpecifier
    return {
        "and_comm": lambda: (A(a, b), A(b, a)), "or_comm": lambda: (O(a, b), O(b, a)),
        "and_assoc": lambda: (A(A(a, b), c), A(a, A(b, c))), "or_assoc": lambda: (O(O(a, b), c), O(a, O(b, c))),
        "and_idem": lambda: (A(a, a), a), "or_idem": lambda: (O(a, a), a),
        "absorb1": lambda: (A(a, O(a, b)), a), "absorb2": lambda: (O(a, A(a, b)), a),
        "distrib1": lambda: (A(a, O(b, c)), O(A(a, b), A(a, c))), "distrib2": lambda: (O(a, A(b, c)), A(O(a, b), O(a, c))),
        "involution": lambda: (~~a, a), "demorgan1": lambda: (~A(a, b), O(~a, ~b)), "demorgan2": lambda: (~O(a, b), A(~a, ~b)),
        "compl_and": lambda: (A(a, ~a), EmptySpecifier()), "compl_or": lambda: (O(a, ~a), AnySpecifier()),
    }[name]()


def _replay_laws_chunk(args):
    vectors, n, embs = args
    fails = []
    done = 0
    for vec in vectors:
        for emb in embs:
            pts, alt = emb["points"], emb["alt"]
            a, b, c = spec_iface.build(vec["a"], pts), spec_iface.build(vec["b"], alt), spec_iface.build(vec["c"], pts)
            ctx = dict(vec, emb=emb["name"], points=pts)
            site = f"{vec['op']}({_kinds(vec['a'])},{_kinds(vec['b'])},{_kinds(vec['c'])})"
            done += 1
            try:
                lhs, rhs = _law_sides(vec["op"], a, b, c)
                ok = bool(lhs == rhs) and bool(rhs == lhs)
            except Exception as e:  # noqa: BLE001
                fails.append(("C14", f"C14:{site}:raises-{type(e).__name__}", repr(e), ctx))
                continue
            if not ok:
                fails.append(("C14", f"C14:{site}:sides-differ", f"{vec['op']}: {_s(lhs)}  vs  {_s(rhs)}", ctx))
            elif hash(lhs) != hash(rhs):
                fails.append(("C13", f"C13:eq-hash(law {vec['op']})", f"equal sides {_s(lhs)} / {_s(rhs)} hash differently", ctx))
    return done, fails


def _pool_map(fn, jobs):
    procs = min(16, max(1, len(jobs)))
    with mp.Pool(procs) as pool:
        return pool.map(fn, jobs)


def _chunks(xs, k):
    size = max(1, (len(xs) + k - 1) // k)
    return [xs[i:i + size] for i in range(0, len(xs), size)]


def _cfg(text: str) -> str:
    f = tempfile.NamedTemporaryFile("w", suffix=".cfg", delete=False, prefix="verif_")
    f.write(text)
    f.close()
    return f.name


PAIRS_INVS = {"C01": ["DenExact"], "C05": ["ResultCanonical", "ResultIsTheCanonical", "EmptyAnyExact", "EqExact", "CanonUnique"],
              "C13": ["EqSymmetric", "EqImpliesHash", "EqExact"], "C14": ["DenExact", "EqExact"]}
SESS_INVS = {"C01": ["SessDenExact"], "C05": ["SessCanonical", "SessTheCanonical", "SessEqExact", "SessEmptyAny"],
             "C13": ["SessEqHash", "SessEqExact"], "C14": ["SessDenExact"]}


def _mc(rep: Report, name: str, spec: str, n: int, invs: list[str], dump: str | None = None, timeout=1500):
    cfg = _cfg(f"SPECIFICATION {spec}\nCONSTANT N = {n}\n" + "".join(f"INVARIANT {i}\n" for i in invs) + "CHECK_DEADLOCK FALSE\n")
    try:
        r = tla.run_tlc("IntervalAlgebra.tla", cfg, workers=16, args=(["-dump", dump] if dump else []), timeout=timeout)
    finally:
        os.unlink(cfg)
    if r.violated:
        # the transcription of the code breaks the property at design level
        rep.violation(f"{rep.pid}:spec:{name}:{r.violated}", f"TLC: invariant {r.violated} violated in {spec} (N={n})",
                      {"tlc_tail": r.out[-3000:]})
    else:
        tla.require_ok(r, f"TLC {spec} N={n}")
    rep.add("states", r.distinct)
    rep.add("transitions", r.generated)
    rep.cov.setdefault("tlc_runs", []).append({"config": name, "N": n, "invariants": invs, "distinct": r.distinct,
                                               "generated": r.generated, "wall_s": round(r.wall, 1), "violated": r.violated})
    return r


# --------------------------------------------------------------------------- B2: behaviours of the Session machine
def _b2_chunk(args):
    files, n, embs = args
    from dep_logic.specifiers import parse_version_specifier
    fails, steps = [], 0
    probes = _probe_versions(n)
    for path in files:
        beh = tla.parse_sim_file(path)
        for emb in embs:
            pts = emb["points"]

            def mk(v):
                return spec_iface.build(v, pts) if v["k"] == "any" else parse_version_specifier(spec_iface.text_of(v, pts))
            try:
                x, y = mk(beh[0]["a"]), mk(beh[0]["b"])
            except Exception as e:  # noqa: BLE001
                fails.append(("C17", f"C17:b2-load:raises-{type(e).__name__}", repr(e), {"file_state": beh[0]}))
                continue
            trail = []
            for st in beh[1:]:
                op = st["op"]
                trail.append(op if op != "load" else "load " + spec_iface.text_of(st["b"], pts))
                ctx = {"kind": "behaviour", "n": n, "emb": emb["name"], "points": pts, "init": [beh[0]["a"], beh[0]["b"]], "trail": list(trail)}
                try:
                    if op == "and":
                        x = x & y
                    elif op == "rand":
                        x = y & x
                    elif op == "or":
                        x = x | y
                    elif op == "ror":
                        x = y | x
                    elif op == "not":
                        x = ~x
                    elif op == "swap":
                        x, y = y, x
                    elif op == "load":
                        y = mk(st["b"])
                except Exception as e:  # noqa: BLE001
                    fails.append(("C01", f"C01:b2:{op}:raises-{type(e).__name__}", repr(e), ctx))
                    break
                steps += 1
                bad = False
                for name, obj, exp in (("a", x, st["a"]), ("b", y, st["b"])):
                    try:
                        got = spec_iface.project(obj, pts)
                    except spec_iface.ProjectionError as e:
                        fails.append(("C01", f"C01:b2:{op}:foreign-bound", str(e), ctx))
                        bad = True
                        break
                    dexp = spec_iface.den(exp, n)
                    if spec_iface.norm_shape(got) != spec_iface.norm_shape(exp):
                        if spec_iface.den(got, n) != dexp:
                            fails.append(("C01", f"C01:b2:{op}({_kinds(exp)}):den-mismatch", f"after {trail}: register {name} is {_s(obj)}, specification has {spec_iface.text_of(exp, pts)!r}", ctx))
                            bad = True
                        else:       # right set, wrong shape: keep going, later steps show what it breaks
                            fails.append(("C05", f"C05:b2:{op}({_kinds(exp)}):non-canonical-shape", f"after {trail}: register {name} is {got}, canonical value is {exp}", ctx))
                    if emb["name"] == "plain":
                        try:
                            for pnum, ver in enumerate(probes):
                                if bool(ver in obj) != (pnum in dexp):
                                    fails.append(("C04", f"C04:b2:{op}({_kinds(exp)}):in-vs-exact-set", f"after {trail}: `{ver} in {_s(obj)}` is {ver in obj}, exact set says {pnum in dexp}", ctx))
                                    bad = True
                                    break
                        except Exception as e:  # noqa: BLE001
                            fails.append(("C04", f"C04:b2:{op}:in-raises-{type(e).__name__}", repr(e), ctx))
                            bad = True
                    try:
                        if bool(obj.is_empty()) != (not dexp) or bool(obj.is_any()) != (len(dexp) == 2 * n + 1):
                            fails.append(("C05", f"C05:b2:{op}({_kinds(exp)}):is_empty-is_any", f"after {trail}: {_s(obj)} reports is_empty={obj.is_empty()} is_any={obj.is_any()}", ctx))
                            bad = True
                    except Exception as e:  # noqa: BLE001
                        fails.append(("C05", f"C05:b2:{op}:observer-raises-{type(e).__name__}", repr(e), ctx))
                        bad = True
                same = spec_iface.den(st["a"], n) == spec_iface.den(st["b"], n)
                try:
                    e1, e2 = bool(x == y), bool(y == x)
                    if e1 != e2:
                        fails.append(("C13", f"C13:b2:{op}:eq-asymmetric", f"after {trail}", ctx))
                    elif e1 != same and not bad:
                        fails.append(("C05", f"C05:b2:{op}:eq-vs-den", f"after {trail}: == is {e1}, same set is {same}", ctx))
                    if e1 and hash(x) != hash(y):
                        fails.append(("C13", f"C13:b2:eq-hash({_kinds(st['a'])},{_kinds(st['b'])})", f"after {trail}: equal registers hash differently", ctx))
                except Exception as e:  # noqa: BLE001
                    fails.append(("C13", f"C13:b2:{op}:eq-raises-{type(e).__name__}", repr(e), ctx))
                if bad:
                    break       # later steps would only repeat the divergence
    return steps, fails


def b2_behaviours(rep: Report, n: int, num: int, depth: int) -> None:
    """B2: TLC -simulate behaviours of the Session machine, stepped through real objects."""
    tmp = tempfile.mkdtemp(prefix="verif_b2_")
    try:
        cfg = os.path.join(tmp, "s.cfg")
        open(cfg, "w").write(f"SPECIFICATION SessSpec\nCONSTANT N = {n}\nINVARIANT SessDenExact\nINVARIANT SessCanonical\nCHECK_DEADLOCK FALSE\n")
        os.makedirs(os.path.join(tmp, "sim"))
        r = tla.run_tlc("IntervalAlgebra.tla", cfg, workers=1, timeout=900,
                        args=["-simulate", f"file={tmp}/sim/tr,num={num}", "-depth", str(depth), "-seed", str(rep.seed + 11)])
        if r.violated:
            rep.violation(f"{rep.pid}:spec:Session-simulate:{r.violated}", "TLC simulation violated an invariant", {"tlc_tail": r.out[-1500:]})
        files = sorted(os.path.join(tmp, "sim", f) for f in os.listdir(os.path.join(tmp, "sim")))
        if not files:
            raise tla.MachineryError("TLC -simulate wrote no behaviour files: " + r.out[-800:])
        embs = [e for e in spec_iface.embeddings(n, rep.seed, 1) if e["name"] in ("plain", "dense", "random0")]
        steps = 0
        for done, fails in _pool_map(_b2_chunk, [(ch, n, embs) for ch in _chunks(files, 32)]):
            steps += done
            for (p, sig, detail, vec) in fails:
                if p == rep.pid:
                    rep.violation(sig, detail, vec)
        rep.add("traces_validated_against_impl", len(files) * len(embs))
        rep.count("b2_behaviours", len(files))
        rep.count("b2_steps_replayed", steps)
        rep.sample({"binding": "B2", "behaviour": [st["op"] for st in tla.parse_sim_file(files[0])]})
    finally:
        import shutil
        shutil.rmtree(tmp, ignore_errors=True)


def _apalache(rep: Report, invs: list[str]) -> None:
    """Unbounded complement (specs/apalache/RangeInt.tla): one-state invariants discharged symbolically."""
    import subprocess
    import time
    out_dir = tempfile.mkdtemp(prefix="verif_apa_")
    try:
        for inv in invs:
            t0 = time.time()
            try:
                p = subprocess.run(["apalache-mc", "check", f"--inv={inv}", "--length=0", f"--out-dir={out_dir}", "RangeInt.tla"],
                                   cwd=os.path.join(tla.SPECS, "apalache"), capture_output=True, text=True, timeout=600)
                txt = p.stdout + p.stderr
            except (subprocess.TimeoutExpired, FileNotFoundError) as e:
                rep.notes.append(f"apalache {inv}: not decided ({type(e).__name__})")
                continue
            if "The outcome is: NoError" in txt:
                rep.cov.setdefault("apalache_obligations", []).append({"inv": inv, "outcome": "NoError", "wall_s": round(time.time() - t0, 1)})
            elif "The outcome is: Error" in txt:
                rep.violation(f"{rep.pid}:spec:apalache:{inv}", f"Apalache found a counterexample to {inv} on the transcribed range operators", {"apalache_tail": txt[-1500:]})
            else:
                rep.notes.append(f"apalache {inv}: no verdict ({txt[-200:]!r})")
    finally:
        import shutil
        shutil.rmtree(out_dir, ignore_errors=True)


def pairs_membership(rep: Report, n: int) -> None:
    """C04 on the algebra: every Pairs transition replayed with membership through `in`/contains()."""
    tmp = tempfile.mkdtemp(prefix="verif_ia_")
    try:
        dump = os.path.join(tmp, "pairs")
        _mc(rep, "Pairs", "PairsSpec", n, ["DenExact"], dump=dump)
        vectors = [st for st in tla.load_dump(dump + ".dump") if st["op"] != "init"]
    finally:
        import shutil
        shutil.rmtree(tmp, ignore_errors=True)
    embs = [e for e in spec_iface.embeddings(n, rep.seed, 0) if e["name"] in ("plain", "compat")]
    total = 0
    for done, fails in _pool_map(_replay_chunk, [(ch, n, embs, "ctor", True) for ch in _chunks(vectors, 64)]):
        total += done
        for (p, sig, detail, vec) in fails:
            if p == rep.pid:
                rep.violation(sig, detail, {"kind": "pairs", "n": n, **vec})
    rep.add("traces_validated_against_impl", total)
    rep.count("b1_pair_vectors_with_membership", len(vectors))


def run(pid: str, tier: str, replay: str | None = None) -> int:
    assert pid in PROPS
    rep = Report(pid, tier, "model_checking")
    seed = rep.seed
    thorough = tier == "thorough"
    rep.assumptions += ["packaging.version.Version is the PEP 440 total order (trusted base)",
                        "order-type abstraction: specifier operators touch versions only through <, ==, hash"]
    if replay and json.load(open(replay))["vector"].get("kind") in ("pairs", "laws", "session"):
        return _replay_file(rep, replay)

    # ------------------------------------------------------------- MC + B1: Pairs
    n = 4 if thorough else 3
    tmp = tempfile.mkdtemp(prefix="verif_ia_")
    try:
        dump = os.path.join(tmp, "pairs")
        _mc(rep, "Pairs", "PairsSpec", n, PAIRS_INVS[pid], dump=dump)
        allstates = tla.load_dump(dump + ".dump")
        values = {}
        for st in allstates:
            values.setdefault(json.dumps(st["a"], sort_keys=True), st["a"])
        values = list(values.values())
        vectors = [st for st in allstates if st["op"] != "init"]
        del allstates
        os.unlink(dump + ".dump")
        for v in vectors:
            v.pop("c", None), v.pop("rhs", None)
        embs = spec_iface.embeddings(n, seed, extra_random=2 if thorough else 1)
        rng = random.Random(seed)
        rng.shuffle(vectors)
        total = 0
        for mode in ("ctor", "parse"):
            vs = vectors if (mode == "ctor" or thorough) else vectors[: len(vectors) // 4]
            es = embs if mode == "ctor" else embs[:2]
            jobs = [(ch, n, es, mode) for ch in _chunks(vs, 64)]
            for done, fails in _pool_map(_replay_chunk, jobs):
                total += done
                for (p, sig, detail, vec) in fails:
                    if p == pid:
                        rep.violation(sig, detail, {"kind": "pairs", "n": n, **vec})
        rep.add("traces_validated_against_impl", total)
        rep.count("b1_pair_vectors", len(vectors))
        rep.set(embeddings=[e["name"] + ":" + ",".join(e["points"]) for e in embs])
        for v in vectors[:3]:
            rep.sample({"binding": "B1", "vector": v, "points": embs[1]["points"]})

        # ----------------------------------------------------------- MC: Session reachability
        _mc(rep, "Session", "SessSpec", 3 if thorough else 2, SESS_INVS[pid])
        # ----------------------------------------------------------- B2: simulated behaviours on real objects
        b2_behaviours(rep, 3, num=(6000 if thorough else 600), depth=(16 if thorough else 12))
        if thorough:
            # deeper than the exhaustive scopes: behaviours over 5 bounds (unions of up to 6 members)
            b2_behaviours(rep, 5, num=3000, depth=20)

        # ----------------------------------------------------------- MC + B1: Laws (C14, C13)
        if pid in ("C14", "C13"):
            _mc(rep, "Laws", "LawsSpec", 2, ["LawHolds", "LawSidesCanonical"])
        if pid == "C14":
            # B1 for laws: the operand values are the ones TLC enumerated for Pairs; triples are
            # sampled by the harness (the oracle is the law itself: both sides must be ==).
            ntri = 30000 if thorough else 3000
            lv = []
            for _ in range(ntri):
                a, b, c = rng.choice(values), rng.choice(values), rng.choice(values)
                for law in drive_spec.LAWS:
                    lv.append({"a": a, "b": b, "c": c, "op": law})
            lembs = [e for e in embs if e["name"] in ("dense", "lengths")]
            tot = 0
            for done, fails in _pool_map(_replay_laws_chunk, [(ch, n, lembs) for ch in _chunks(lv, 64)]):
                tot += done
                for (p, sig, detail, vec) in fails:
                    if p == pid:
                        rep.violation(sig, detail, {"kind": "laws", "n": n, **vec})
            rep.add("traces_validated_against_impl", tot)
            rep.count("b1_law_vectors", len(lv))

        # ----------------------------------------------------------- Apalache: two-range operations for ARBITRARY integer bounds
        if thorough and pid in ("C01", "C05"):
            _apalache(rep, {"C01": ["AndSound", "OrSound"], "C05": ["AndCanon", "OrCanon"]}[pid])
        # ----------------------------------------------------------- marker objects (C13 / C14 speak of both families)
        if pid in ("C13", "C14"):
            from . import check_marker
            check_marker.marker_sessions(rep, (pid,), n_random=(6000 if thorough else 700), n_law=(4000 if thorough else 500), selfcheck=False)
            if pid == "C14":
                # oracle-free laws (commutativity, absorption) on every pair of the ==/!= group algebra, on the real classes
                check_marker.group_algebra_mc(rep, pid, thorough)
        # ----------------------------------------------------------- B3: recorded sessions
        _b3(rep, pid, seed, n_random=(6000 if thorough else 700), n_law=(6000 if thorough else 500), tmp=tmp)
    finally:
        import shutil
        shutil.rmtree(tmp, ignore_errors=True)
    rep.set(rule="B1: every transition of the Pairs state graph (all ordered pairs of interval sets over N bounds, "
                 "and/or/not) replayed on real objects under each embedding; B3: random sessions validated by TLC. "
                 "distinct_nontrivial counts B1 vectors whose operands are both non-empty non-universal",
            exhaustive=True)
    return rep.finish()


def _b3(rep: Report, pid: str, seed: int, n_random: int, n_law: int, tmp: str, selfcheck=True):
    jobs = []
    per = 100
    k = 0
    for start in range(0, n_random, per):
        jobs.append((seed * 131 + k, min(per, n_random - start), 0))
        k += 1
    for start in range(0, n_law, per):
        jobs.append((seed * 131 + k, 0, min(per, n_law - start)))
        k += 1
    batches = _pool_map(_make_batch, jobs)
    sessions = []
    for b in batches:
        for s in b["sessions"]:
            s["sid"] = len(sessions) + 1
            sessions.append(s)
    rejects = validate_sessions(sessions, tmp)
    by_sid = {s["sid"]: s for s in sessions}
    nrej = 0
    for (sid, l, bad) in rejects:
        for (p, clause) in bad:
            if p != pid:
                continue
            nrej += 1
            s = by_sid[sid]
            ev = s["events"][l - 1]
            sig = classify_session_reject(p, clause, s, l)
            rep.violation(sig, f"session {sid} event {l} ({ev['op']} {ev.get('text','')!r}) fails clause {clause}",
                          {"kind": "session", "session": s, "event": l, "clause": clause})
    rep.add("traces_validated_against_impl", len(sessions))
    rep.count("b3_sessions", len(sessions))
    rep.count("b3_events", sum(len(s["events"]) for s in sessions))
    rep.count("b3_rejected_clauses_this_property", nrej)
    rep.sample({"binding": "B3", "session": {k: v for k, v in sessions[0].items() if k != "events"},
                "events": [{k: e[k] for k in ("op", "a", "b", "text", "shape", "exc")} for e in sessions[0]["events"][:6]]})
    if selfcheck:
        clean = {sid for sid, _, _ in rejects}
        _selfcheck_b3([x for x in sessions if x["sid"] not in clean][:50], tmp)      # only sessions the specification accepted as recorded


def _make_batch(args):
    seed, nr, nl = args
    return drive_spec.make_batch(seed, nr, nl)


def validate_sessions(sessions: list[dict], tmp: str) -> list[tuple]:
    """Run TLC on SpecSessionTrace over the sessions; return [(sid, event_index, {(pid, clause)})]."""
    sessions = [s for s in sessions if not tla.has_null(s["events"])]        # (never seen on the unchanged tree)
    if not sessions:
        return []
    n = max(1, max(s["npts"] for s in sessions))
    rejects = []
    # split into shards, one TLC (single worker: ordered PrintT) per shard, in parallel processes
    shards = _chunks(sessions, 8)
    jobs = []
    for i, sh in enumerate(shards):
        path = os.path.join(tmp, f"trace_{i}.json")
        slim = [{"sid": s["sid"], "ncand": s["ncand"], "events": s["events"]} for s in sh]
        with open(path, "w") as f:
            json.dump({"sessions": slim, "expected_states": sum(len(x["events"]) + 1 for x in slim)}, f)
        jobs.append((path, n))
    with mp.Pool(min(8, len(jobs))) as pool:
        outs = pool.map(_validate_shard, jobs)
    for out in outs:
        rejects += out
    return rejects


def _validate_shard(args):
    path, n = args
    cfg = _cfg(f"SPECIFICATION TraceSpec\nCONSTANT N = {n}\nPOSTCONDITION AllConsumed\nCHECK_DEADLOCK FALSE\n")
    try:
        r = tla.run_tlc("SpecSessionTrace.tla", cfg, workers=1, env={"TRACE_FILE": path}, timeout=1200, heap="2g")
    finally:
        os.unlink(cfg)
    if r.violated or r.error:
        raise tla.MachineryError(f"trace validation failed to run to completion: {r.violated or r.error}\n{r.out[-2000:]}")
    out = []
    for val in tla.printed_values(r.out, "REJECT"):
        _, sid, l, bad = val
        out.append((sid, l, {tuple(x) for x in bad}))
    return out


def _selfcheck_b3(sessions: list[dict], tmp: str):
    """Demonstrate that the binding bites: corrupt one logged field and require a rejection (else exit 2)."""
    import copy
    ss = copy.deepcopy(sessions)
    target = None
    for s in ss:
        for i, ev in enumerate(s["events"]):
            if ev["op"] in ("and", "or") and not ev["exc"] and ev["shape"]["k"] == "range" and ev["shape"]["rs"][0]["lo"]:
                ev["shape"]["rs"][0]["li"] = not ev["shape"]["rs"][0]["li"]
                target = (s["sid"], i + 1)
                break
        if target:
            break
    if not target:
        return
    rej = validate_sessions(ss, tmp)
    if not any(sid == target[0] and l == target[1] and any(p == "C01" for p, _ in bad) for sid, l, bad in rej):
        raise tla.MachineryError(f"selfcheck: corrupted inclusivity flag in session {target} was not rejected")


def classify_session_reject(pid: str, clause: str, s: dict, l: int) -> str:
    ev = s["events"][l - 1]

    def kind(i):
        sh = s["events"][i - 1]["shape"]
        return _kinds(sh)
    if ev["op"] in ("and", "or"):
        site = f"{ev['op']}({kind(ev['a'])},{kind(ev['b'])})"
    elif ev["op"] in ("not", "reparse"):
        site = f"{ev['op']}({kind(ev['a'])})"
    elif ev["op"] == "parse":
        site = "parse(" + _leaf_class(ev["text"]) + ")"
    else:
        site = ev["op"] + ":" + ev.get("law", "")
    extra = ""
    if ev["exc"]:
        extra = ":" + ev["exc"]
    if pid == "C04" and clause in ("in_table", "contains_table") and not ev["exc"]:
        # contains()/`in` go through str(): a member range [X.Y, (X+1).0.postN) is rendered `~=X.Y` (the recorded
        # C06 finding) and then answers for `<(X+1).0`
        from packaging.version import Version
        for r in ev["shape"]["rs"]:
            if r["lo"] and r["hi"] and r["li"] and not r["ui"]:
                hi = Version(s["points"][r["hi"] - 1])
                if hi.is_postrelease and not hi.is_prerelease:
                    return "C04:contains-via-str:~=:upper-bound-post-release"
    if pid == "C06" and ev["op"] == "reparse" and "~=" in ev["text"] and not ev["exc"]:
        # which bound shape makes the ~= rendering lossy?  (a range, or a member range of a union, closed below and open
        # above at a post-release: it is printed as ~=X.Y, which ends at the release itself)
        from packaging.version import Version
        src = s["events"][ev["a"] - 1]["shape"]
        for r in src["rs"]:
            if r["lo"] and r["hi"] and r["li"] and not r["ui"]:
                hi = Version(s["points"][r["hi"] - 1])
                if hi.is_postrelease and not hi.is_prerelease:
                    return "C06:str(range):~=:upper-bound-post-release"
    return f"{pid}:{site}:{clause}{extra}"


def _leaf_class(text: str) -> str:
    import re
    ops = sorted(set(re.findall(r"(~=|==|!=|<=|>=|<|>)", text)))
    cls = ",".join(ops)
    if ".*" in text:
        cls += ",wildcard"
    if "!" in text.replace("!=", ""):
        cls += ",epoch"
    return cls or text


def _replay_file(rep: Report, path: str) -> int:
    doc = json.load(open(path))
    vec = doc["vector"]
    pid = rep.pid
    if vec.get("kind") == "pairs":
        n = vec["n"]
        embs = [e for e in spec_iface.embeddings(n, rep.seed, 2) if e["name"] == vec.get("emb")] or spec_iface.embeddings(n, rep.seed, 1)
        done, fails = _replay_chunk(([vec], n, embs, vec.get("mode", "ctor")))
    elif vec.get("kind") == "laws":
        n = vec["n"]
        embs = [e for e in spec_iface.embeddings(n, rep.seed, 0) if e["name"] == vec.get("emb")]
        done, fails = _replay_laws_chunk(([vec], n, embs))
    else:
        # re-run the recorded session script on the current tree and validate it again
        tmp = tempfile.mkdtemp(prefix="verif_ia_")
        s0 = vec["session"]
        s = drive_spec.law_session(s0["sid"], s0["seed"]) if any(e["op"] == "law" for e in s0["events"]) else drive_spec.random_session(s0["sid"], s0["seed"])
        rej = validate_sessions([s], tmp)
        fails = [(p, classify_session_reject(p, c, s, l), f"event {l} clause {c}", {"kind": "session", "session": s, "event": l, "clause": c})
                 for sid, l, bad in rej for (p, c) in bad]
        done = 1
    for (p, sig, detail, v) in fails:
        if p == pid:
            rep.violation(sig, detail, v)
    rep.add("traces_validated_against_impl", done)
    rep.set(states=1, transitions=1)
    rep.sample({"replayed": path})
    return rep.finish()
