"""Marker properties decided by recorded sessions (binding B3) validated by TLC against
specs/MarkerSessionTrace.tla: C02 (soundness of & and |), C07 (text round trip), C12 (only /
exclude / without_extras), C15 (normal form) and the marker halves of C13 / C14.
"""
from __future__ import annotations

import copy
import json
import multiprocessing as mp
import os
import shutil
import tempfile

from . import drive_marker, tla
from .engine import Report

PROPS = ("C02", "C07", "C12", "C15")


def _validate_shard(path):
    cfg = tempfile.NamedTemporaryFile("w", suffix=".cfg", delete=False, prefix="verif_m_")
    cfg.write("SPECIFICATION TraceSpec\nPOSTCONDITION AllConsumed\nCHECK_DEADLOCK FALSE\n")
    cfg.close()
    try:
        r = tla.run_tlc("MarkerSessionTrace.tla", cfg.name, workers=1, env={"TRACE_FILE": path}, timeout=1200, heap="2g")
    finally:
        os.unlink(cfg.name)
    if r.violated or r.error:
        raise tla.MachineryError(f"marker trace validation did not run to completion: {r.violated or r.error}\n{r.out[-2000:]}")
    out = []
    for val in tla.printed_values(r.out, "REJECT"):
        _, sid, l, bad = val
        out.append((sid, l, {tuple(x) for x in bad}))
    return r.distinct, out


def validate(sessions: list[dict], tmp: str):
    sessions = [s for s in sessions if not tla.has_null(s["events"])]        # (never seen on the unchanged tree)
    if not sessions:
        return 0, []
    shards = [sessions[i::8] for i in range(8) if sessions[i::8]]
    paths = []
    for i, sh in enumerate(shards):
        p = os.path.join(tmp, f"mtrace_{i}.json")
        slim = [{"sid": s["sid"], "events": s["events"]} for s in sh]
        with open(p, "w") as f:
            json.dump({"sessions": slim, "expected_states": sum(len(x["events"]) + 1 for x in slim)}, f)
        paths.append(p)
    with mp.Pool(len(paths)) as pool:
        res = pool.map(_validate_shard, paths)
    states = sum(r[0] for r in res)
    rejects = [x for r in res for x in r[1]]
    return states, rejects


def classify(pid: str, clause: str, s: dict, l: int) -> str:
    ev = s["events"][l - 1]

    def kind(i):
        return drive_marker.shape_summary(s["events"][i - 1]["shape"])
    if ev["op"] in ("and", "or", "law"):
        site = f"{ev['op']}({kind(ev['a'])},{kind(ev['b'])})"
    elif ev["op"] == "parse":
        site = "parse"
    else:
        site = f"{ev['op']}({kind(ev['a'])})"
    extra = (":" + ev["exc"]) if ev["exc"] else ""
    if (clause in ("and_table", "or_table", "evaluate_vs_reference", "reparse_table", "only_not_implied", "only_changes_meaning", "exclude_changes_meaning")
            or ev["op"] == "law") and _only_inlist_substring_envs(s, l, clause):
        # evaluate() reads `python_version in "..."` as substring containment (PEP 508), the algebra
        # reads the literal as a set of release series: DESIGN section 6 item 12
        return f"{pid}:in-list:env-substring-of-list-not-element"
    if pid == "C15" and clause == "normal_form":
        # name the defect of the shape, not the operands: that is what distinguishes findings
        return f"C15:{ev['op']}:normal_form:{nf_reason(ev['shape'])}"
    return f"{pid}:{site}:{clause}{extra}:{_feature(s, l)}"


def _only_inlist_substring_envs(s: dict, l: int, clause: str) -> bool:
    """True iff every environment on which the clause fails has a python_version that is a substring
    of some in-list literal of the session without being one of its elements."""
    import re
    ev = s["events"][l - 1]
    tab = ev["table"]
    if ev["op"] == "law":
        tab, exp = s["events"][ev["a"] - 1]["table"], s["events"][ev["b"] - 1]["table"]
    elif clause == "evaluate_vs_reference":
        exp = ev["ref"]
    elif clause in ("reparse_table", "only_changes_meaning", "exclude_changes_meaning"):
        exp = s["events"][ev["a"] - 1]["table"]
    elif clause == "only_not_implied":
        ta = s["events"][ev["a"] - 1]["table"]
        exp = [t or a for t, a in zip(tab, ta)]          # differs from tab exactly where the operand holds and the result does not
    else:
        ta, tb = s["events"][ev["a"] - 1]["table"], s["events"][ev["b"] - 1]["table"]
        exp = [(x and y) if clause == "and_table" else (x or y) for x, y in zip(ta, tb)]
    bad = [i for i in range(len(tab)) if tab[i] != exp[i]]
    if not bad:
        return False
    lists = []
    for e in s["events"]:
        for t in (e.get("text", ""), e.get("str", "")):
            lists += re.findall(r'python_version\s+(?:not in|in)\s+"([^"]*)"', t)
    if not lists:
        return False
    for i in bad:
        pv = s["envs"][i].get("python_version")
        if pv is None:
            return False
        if not any((pv in lit) and (pv not in re.split(r"[,\s]+", lit)) for lit in lists):
            return False
    return True


def nf_reason(t: dict) -> str:
    """Why a shape tree is not in normal form (first reason found, depth first)."""
    if t["k"] in ("eqgroup", "negroup"):
        if t["n"] < 2:
            return f"{t['k']}-with-{t['n']}-values"
        return "" if t.get("nd", t["n"]) == t["n"] else f"{t['k']}-with-repeated-value"
    if t["k"] in ("and", "or"):
        if len(t["ch"]) < 2:
            return f"{t['k']}-with-{len(t['ch'])}-child"
        keys = [c["key"] for c in t["ch"]]
        if len(set(keys)) != len(keys):
            return "duplicate-children"
        for c in t["ch"]:
            if c["k"] in ("empty", "any"):
                return f"{c['k']}-child-in-{t['k']}"
            if c["k"] == t["k"]:
                return f"nested-{t['k']}"
            r = nf_reason(c)
            if r:
                return r
        return ""
    if t["k"].startswith("other"):
        return "unknown-class"
    return ""


def _feature(s: dict, l: int) -> str:
    """The feature class of the operands involved (which atom kinds occur) - keeps signatures narrow."""
    ev = s["events"][l - 1]
    texts = []
    for i in (ev["a"], ev["b"]):
        if i:
            texts.append(s["events"][i - 1]["str"])
    texts.append(ev.get("text", "") or ev.get("str", ""))
    t = " ".join(texts)
    feats = []
    import re
    if re.search(r'"[^"]*"\s*(<=|>=|<|>)\s*\w', t):
        feats.append("literal-left-ordering")
    if " in " in t:
        feats.append("in-list")
    if "~=" in t:
        feats.append("compat")
    if ".*" in t:
        feats.append("wildcard")
    if "python_version" in t and "python_full_version" in t:
        feats.append("pv+pfv")
    if "extra" in t:
        feats.append("extra")
    if "<empty>" in t:
        feats.append("empty-token")
    return "+".join(feats) or "plain"


def marker_sessions(rep: Report, pids: tuple, n_random: int, n_law: int, selfcheck=True) -> None:
    """Generate, record and validate sessions; report the clauses attributed to `pids`."""
    seed = rep.seed
    per = 25
    jobs = [(seed * 211 + k, min(per, n_random - i), 0) for k, i in enumerate(range(0, n_random, per))]
    jobs += [(seed * 223 + 1000 + k, 0, min(per, n_law - i)) for k, i in enumerate(range(0, n_law, per))]
    with mp.Pool(16) as pool:
        batches = pool.map(drive_marker.make_batch, jobs)
    sessions = []
    for b in [drive_marker.scripted_sessions()] + batches:          # the scripted regression sessions come first
        for s in b:
            s["sid"] = len(sessions) + 1
            sessions.append(s)
    tmp = tempfile.mkdtemp(prefix="verif_ms_")
    try:
        states, rejects = validate(sessions, tmp)
        if selfcheck:
            dirty = {sid for sid, _, _ in rejects}
            _selfcheck([x for x in sessions if x["sid"] not in dirty][:40], tmp)      # only sessions the specification accepted as recorded
    finally:
        shutil.rmtree(tmp, ignore_errors=True)
    by_sid = {s["sid"]: s for s in sessions}
    k = 0
    for (sid, l, bad) in rejects:
        for (p, clause) in bad:
            if p not in pids:
                continue
            k += 1
            s = by_sid[sid]
            ev = s["events"][l - 1]
            ops = [e["text"] if e["op"] == "parse" else e["op"] for e in s["events"][:l]]
            rep.violation(classify(p, clause, s, l),
                          f"session {sid} event {l}: {ev['op']} a={_txt(s, ev['a'])!r} b={_txt(s, ev['b'])!r} names={ev['names']} -> {ev['str']!r} fails {clause}",
                          {"kind": "marker-session", "seed": s["seed"], "law": any(e["op"] == "law" for e in s["events"]),
                           "session_kind": s.get("session_kind") or ("interchange" if any(e.get("law", "").startswith("interchange") for e in s["events"]) else "law" if any(e["op"] == "law" for e in s["events"]) else "random"), "event": l, "clause": clause,
                           "script": ops, "result": ev["str"], "grid_complete": s["grid_complete"]})
    nev = sum(len(s["events"]) for s in sessions)
    rep.add("states", states)
    rep.add("transitions", states)
    rep.add("traces_validated_against_impl", len(sessions))
    rep.count("marker_sessions", len(sessions))
    rep.count("marker_events", nev)
    rep.count("marker_sessions_timeout", sum(1 for s in sessions if s["events"] and s["events"][-1]["exc"].endswith("Timeout")))
    rep.count("marker_grids_complete", sum(1 for s in sessions if s["grid_complete"]))
    rep.count("marker_rejected_clauses_this_property", k)
    s0 = sessions[0]
    rep.sample({"binding": "B3-marker", "axes": s0["axes"], "n_envs": len(s0["envs"]),
                "events": [{kk: e[kk] for kk in ("op", "a", "b", "text", "names", "str", "exc")} for e in s0["events"][:6]]})


def _txt(s, i):
    return s["events"][i - 1]["str"] if i else ""


def _selfcheck(sessions: list[dict], tmp: str):
    """Corrupt one truth-table bit of one & / | result: the trace must be rejected (else exit 2)."""
    ss = copy.deepcopy(sessions)
    target = None
    for s in ss:
        for i, ev in enumerate(s["events"]):
            if ev["op"] in ("and", "or") and not ev["exc"] and ev["table"]:
                ev["table"][0] = not ev["table"][0]
                target = (s["sid"], i + 1)
                break
        if target:
            break
    if not target:
        return
    _, rej = validate(ss, tmp)
    if not any(sid == target[0] and l == target[1] and any(p == "C02" for p, _ in bad) for sid, l, bad in rej):
        raise tla.MachineryError(f"selfcheck: flipped truth-table bit in session {target} was not rejected")


# --------------------------------------------------------------------------- MarkerNormalForm: MC + B1
P_ATOMS = {(1,): 'python_version < "3.8"', (2, 3): 'python_version >= "3.8"', (1, 2): 'python_version < "3.9"',
           (3,): 'python_version >= "3.9"', (2,): 'python_version == "3.8"', (1, 3): 'python_version != "3.8"'}
R_ATOMS = {(1,): 'sys_platform in "a"', (1, 2): 'sys_platform in "a b"', (2,): 'sys_platform in "b"', (2, 3): 'sys_platform in "b c"',
           (3,): 'sys_platform in "c"', (1, 3): 'sys_platform in "a c"'}
Q_ATOMS = {(1,): 'os_name in "a"', (2,): 'os_name in "b"'}
T_ATOMS = {(1,): 'platform_machine in "a"', (2,): 'platform_machine in "b"'}
ATOM_TEXT = {"p": P_ATOMS, "r": R_ATOMS, "q": Q_ATOMS, "t": T_ATOMS}
VAR_NAME = {"p": "python_version", "r": "sys_platform", "q": "os_name", "t": "platform_machine"}


def nf_grid(vars_: list[str], dom: list[int]):
    """(abstract environment, concrete environment) pairs: value k of p is python 3.(6+k), of the others 'abc'[k-1]."""
    import itertools
    out = []
    for combo in itertools.product(dom, repeat=len(vars_)):
        ab = dict(zip(vars_, combo))
        env = {}
        for v, k in ab.items():
            if v == "p":
                env["python_version"] = f"3.{6 + k}"
                env["python_full_version"] = f"3.{6 + k}.0"
            else:
                env[VAR_NAME[v]] = "abc"[k - 1]
        out.append((ab, env))
    return out


def nf_text(m: dict) -> str:
    k = m["k"]
    if k == "empty":
        return "<empty>"
    if k == "any":
        return ""
    if k == "atom":
        return ATOM_TEXT[m["var"]][tuple(sorted(m["set"]))]
    parts = []
    for c in m["ch"]:
        t = nf_text(c)
        parts.append(f"({t})" if c["k"] in ("and", "or") else t)
    return (" and " if k == "and" else " or ").join(parts)


def nf_holds(m: dict, ab: dict) -> bool:
    k = m["k"]
    if k == "empty":
        return False
    if k == "any":
        return True
    if k == "atom":
        return ab[m["var"]] in m["set"]
    vals = [nf_holds(c, ab) for c in m["ch"]]
    return all(vals) if k == "and" else any(vals)


def _nf_chunk(args):
    states, vars_, dom = args
    from dep_logic.markers import parse_marker
    grid = nf_grid(vars_, dom)
    NF_GRID = [env for _, env in grid]
    fails, n = [], 0
    for st in states:
        op = st["op"]
        try:
            x = parse_marker(nf_text(st["x"]))
            y = parse_marker(nf_text(st["y"]))
        except Exception as e:  # noqa: BLE001
            fails.append(("C07", f"C07:nf-b1:parse-raises-{type(e).__name__}", f"{nf_text(st['x'])!r} / {nf_text(st['y'])!r}: {e!r}", {"x": nf_text(st["x"])}))
            continue
        ctx = {"kind": "normal-form-vector", "x": nf_text(st["x"]), "y": nf_text(st["y"]), "op": op}
        n += 1

        def call():
            if op == "and":
                return x & y
            if op == "or":
                return x | y
            v = VAR_NAME[op.split("_")[1]]
            if op.startswith("exclude"):
                return x.exclude(v)
            if op.startswith("onlynot"):
                return x.only(*[VAR_NAME[w] for w in vars_ if VAR_NAME[w] != v])
            return x.only(v)
        res, exc = drive_marker.timed(call)
        if exc == "Timeout":
            continue
        pidx = "C02" if op in ("and", "or") else "C12"
        if exc:
            fails.append((pidx, f"{pidx}:nf-b1:{op}:raises-{exc}", f"{op} on {ctx['x']!r}, {ctx['y']!r} raised {exc}", ctx))
            continue
        want = [nf_holds(st["res"], ab) for ab, _ in grid]
        got = drive_marker.table_of(res, NF_GRID)
        ctx["result"] = drive_marker._key(res)
        if op in ("and", "or"):
            if got != want:
                fails.append(("C02", f"C02:nf-b1:{op}({drive_marker.shape_summary(drive_marker.shape_of(x))},{drive_marker.shape_summary(drive_marker.shape_of(y))}):table",
                              f"{ctx['x']!r} {op} {ctx['y']!r} -> {ctx['result']!r}: truth table differs from the specification's result", ctx))
        else:
            v = VAR_NAME[op.split("_")[1]]
            rv = drive_marker.vars_of(res)
            tx = drive_marker.table_of(x, NF_GRID)
            if op.startswith("exclude"):
                if v in rv:
                    fails.append(("C12", f"C12:nf-b1:{op}:leaks-variable", f"{ctx['x']!r}.exclude({v!r}) -> {ctx['result']!r}", ctx))
                elif v not in drive_marker.vars_of(x) and got != tx:
                    fails.append(("C12", f"C12:nf-b1:{op}:changes-meaning", f"{ctx['x']!r}.exclude({v!r}) -> {ctx['result']!r}", ctx))
            elif op.startswith("onlynot"):
                if v in rv:
                    fails.append(("C12", f"C12:nf-b1:{op}:leaks-variable", f"{ctx['x']!r}.only(all but {v!r}) -> {ctx['result']!r}", ctx))
                elif any(a and not b for a, b in zip(tx, got)):
                    fails.append(("C12", f"C12:nf-b1:{op}:not-implied", f"{ctx['x']!r}.only(all but {v!r}) -> {ctx['result']!r} is not implied by the marker", ctx))
                elif v not in drive_marker.vars_of(x) and got != tx:
                    fails.append(("C12", f"C12:nf-b1:{op}:changes-meaning", f"{ctx['x']!r}.only(all but {v!r}) -> {ctx['result']!r}", ctx))
            else:
                if not rv <= {v}:
                    fails.append(("C12", f"C12:nf-b1:{op}:leaks-variable", f"{ctx['x']!r}.only({v!r}) -> {ctx['result']!r}", ctx))
                elif any(a and not b for a, b in zip(tx, got)):
                    fails.append(("C12", f"C12:nf-b1:{op}:not-implied", f"{ctx['x']!r}.only({v!r}) -> {ctx['result']!r}", ctx))
                elif drive_marker.vars_of(x) <= {v} and got != tx:
                    fails.append(("C12", f"C12:nf-b1:{op}:changes-meaning", f"{ctx['x']!r}.only({v!r}) -> {ctx['result']!r}", ctx))
            if got != want and not fails:
                pass     # the specification's projection may legitimately differ in strength; the property clauses above decide
        reason = nf_reason(drive_marker.shape_of(res))
        if reason:
            opname = op.split("_")[0]
            fails.append(("C15", f"C15:{opname}:normal_form:{reason}", f"{op} on {ctx['x']!r}, {ctx['y']!r} -> {ctx['result']!r} is not in normal form", ctx))
        # C07: the result renders to text that parses back to an equivalent marker
        try:
            text = str(res)
            if "<empty>" in text and not res.is_empty():
                fails.append(("C07", f"C07:nf-b1:{op.split('_')[0]}:empty-token-inside", f"{op} on {ctx['x']!r}, {ctx['y']!r} renders as {text!r}", ctx))
            else:
                back = parse_marker(text)
                if drive_marker.table_of(back, NF_GRID) != got:
                    fails.append(("C07", f"C07:nf-b1:{op.split('_')[0]}:reparse-table", f"{text!r} re-parses to a different marker", ctx))
        except Exception as e:  # noqa: BLE001
            fails.append(("C07", f"C07:nf-b1:{op.split('_')[0]}:raises-{type(e).__name__}", f"{op} on {ctx['x']!r}, {ctx['y']!r}: {e!r}", ctx))
    return n, fails


# --------------------------------------------------------------------------- GroupAlgebra: MC + B1
GFRAG = {"a": "lin", "b": "ux"}


def _gtxt(seq) -> str:
    return "".join(GFRAG[c] for c in seq)


def _gbuild(v: dict):
    from dep_logic.markers.single import EqualityMarkerUnion, InequalityMultiMarker, MarkerExpression
    from dep_logic.utils import OrderedSet
    if v["k"] == "atom":
        return MarkerExpression("sys_platform", v["op"], _gtxt(v["v"]))
    cls = EqualityMarkerUnion if v["k"] == "eq" else InequalityMultiMarker
    return cls("sys_platform", OrderedSet([_gtxt(x) for x in v["vals"]]))


def _group_chunk(states):
    import itertools
    from dep_logic.markers import MarkerUnion, MultiMarker
    cands = ["".join(GFRAG[c] for c in t) for n in range(4) for t in itertools.product("ab", repeat=n)]
    fails, n = [], 0
    for st in states:
        x, y, op = _gbuild(st["x"]), _gbuild(st["y"]), st["op"]
        ctx = {"kind": "group-vector", "x": str(x), "y": str(y), "op": op, "spec_result": st["res"]["k"]}
        site = f"{op}({st['x']['k']}{st['x']['op'] and ':' + st['x']['op']},{st['y']['k']}{st['y']['op'] and ':' + st['y']['op']})"
        n += 1
        try:
            r = (x & y) if op == "and" else (x | y)
        except Exception as e:  # noqa: BLE001
            fails.append(("C02", f"C02:group-b1:{site}:raises-{type(e).__name__}", f"{x} {op} {y}: {e!r}", ctx))
            continue
        tx = [bool(x.evaluate({"sys_platform": c})) for c in cands]
        ty = [bool(y.evaluate({"sys_platform": c})) for c in cands]
        want = [(a and b) if op == "and" else (a or b) for a, b in zip(tx, ty)]
        got = [bool(r.evaluate({"sys_platform": c})) for c in cands]
        ctx["result"] = drive_marker._key(r)
        if got != want:
            fails.append(("C02", f"C02:group-b1:{site}:table", f"{x} {op} {y} -> {ctx['result']!r}: wrong on {[c for c, g, w in zip(cands, got, want) if g != w][:4]}", ctx))
        if not isinstance(r, (MultiMarker, MarkerUnion)) or True:
            reason = nf_reason(drive_marker.shape_of(r))
            if reason:
                fails.append(("C15", f"C15:{op}:normal_form:{reason}", f"{x} {op} {y} -> {ctx['result']!r}", ctx))
        # C07: the result renders to text that re-parses to the same meaning
        try:
            text = str(r)
            if not (r.is_any() or r.is_empty()):
                if "<empty>" in text:
                    fails.append(("C07", f"C07:group-b1:{site}:empty-token-inside", f"{x} {op} {y} renders as {text!r}", ctx))
                from dep_logic.markers import parse_marker
                back = parse_marker(text)
                tb = [bool(back.evaluate({"sys_platform": c})) for c in cands]
                if tb != got:
                    fails.append(("C07", f"C07:group-b1:{site}:reparse-table", f"{x} {op} {y} -> {text!r}, which re-parses to {str(back)!r}: differs on {[c for c, g, w in zip(cands, tb, got) if g != w][:4]}", ctx))
        except Exception as e:  # noqa: BLE001
            fails.append(("C07", f"C07:group-b1:{site}:raises-{type(e).__name__}", f"{x} {op} {y}: {e!r}", ctx))
        # C14: oracle-free laws on this pair (both sides must evaluate alike): commutativity of the operator at hand and
        # the absorption law that uses it
        try:
            r2 = (y & x) if op == "and" else (y | x)
            if [bool(r2.evaluate({"sys_platform": c})) for c in cands] != got:
                fails.append(("C14", f"C14:group-b1:{op}_comm({st['x']['k']},{st['y']['k']})", f"{x} {op} {y} and {y} {op} {x} evaluate differently", ctx))
            ab = (x | r) if op == "and" else (x & r)          # x | (x & y) == x   /   x & (x | y) == x
            if [bool(ab.evaluate({"sys_platform": c})) for c in cands] != tx:
                fails.append(("C14", f"C14:group-b1:absorb({op};{st['x']['k']},{st['y']['k']})", f"x = {x}, y = {y}: x {'|' if op == 'and' else '&'} (x {op} y) = {drive_marker._key(ab)!r} does not evaluate like x", ctx))
        except Exception as e:  # noqa: BLE001
            fails.append(("C14", f"C14:group-b1:{site}:law-raises-{type(e).__name__}", f"{x} {op} {y}: {e!r}", ctx))
    return n, fails


def group_algebra_mc(rep: Report, pid: str, thorough: bool) -> None:
    """TLC on GroupAlgebra (==/!= group tables of single.py) + replay of every transition on the real classes."""
    tmp = tempfile.mkdtemp(prefix="verif_ga_")
    try:
        cfgp = os.path.join(tmp, "c.cfg")
        open(cfgp, "w").write(f"SPECIFICATION ASpec\nCONSTANTS\n MaxLit = 2\n GroupLits <- LitsGroup4\n"
                              "INVARIANT TableExact\nINVARIANT GroupsNormal\nCHECK_DEADLOCK FALSE\n")
        d = os.path.join(tmp, "d")
        r = tla.run_tlc("GroupAlgebraMC.tla", cfgp, workers=16, args=["-dump", d])
        if r.violated:
            rep.violation(f"{pid}:spec:GroupAlgebra:{r.violated}", f"TLC: invariant {r.violated} violated by the transcribed group tables", {"tlc_tail": r.out[-2000:]})
            return
        tla.require_ok(r, "TLC GroupAlgebra")
        rep.add("states", r.distinct)
        rep.add("transitions", r.generated)
        rep.cov.setdefault("tlc_runs", []).append({"module": "GroupAlgebra", "invariants": ["TableExact", "GroupsNormal"], "distinct": r.distinct, "wall_s": round(r.wall, 1)})
        states = [s for s in tla.load_dump(d + ".dump") if s["op"] != "init"]
    finally:
        shutil.rmtree(tmp, ignore_errors=True)
    size = max(1, len(states) // 32)
    total = 0
    with mp.Pool(16) as pool:
        for n, fails in pool.map(_group_chunk, [states[i:i + size] for i in range(0, len(states), size)]):
            total += n
            for (p, sig, detail, vec) in fails:
                if p == pid:
                    rep.violation(sig, detail, vec)
    rep.add("traces_validated_against_impl", total)
    rep.count("group_table_vectors_replayed", total)


def _nf_extra(rep: Report, spec: str, sel: str, invs: list[str], dump: bool, props=(), constraint=None, timeout=1500,
              vars_='{"p", "r"}', dom="{1, 2, 3}"):
    """Another configuration of MarkerNormalForm (Proj: larger inputs x projections; Closure: results as operands)."""
    tmp = tempfile.mkdtemp(prefix="verif_nfx_")
    try:
        cfgp = os.path.join(tmp, "c.cfg")
        open(cfgp, "w").write(f'SPECIFICATION {spec}\nCONSTANTS\n Vars = {vars_}\n Dom = {dom}\n AtomSel <- {sel}\n' +
                              "".join(f"INVARIANT {i}\n" for i in invs) + "".join(f"PROPERTY {q}\n" for q in props) +
                              (f"CONSTRAINT {constraint}\n" if constraint else "") + "CHECK_DEADLOCK FALSE\n")
        d = os.path.join(tmp, "d")
        r = tla.run_tlc("MarkerNormalFormMC.tla", cfgp, workers=16, args=(["-dump", d] if dump else []), heap="6g", timeout=timeout)
        if r.violated:
            rep.violation(f"{rep.pid}:spec:MarkerNormalForm:{spec}:{r.violated}", f"TLC: {r.violated} violated in {spec}", {"tlc_tail": r.out[-2500:]})
            return []
        tla.require_ok(r, f"TLC MarkerNormalForm {spec}")
        rep.add("states", r.distinct)
        rep.add("transitions", r.generated)
        rep.cov.setdefault("tlc_runs", []).append({"module": "MarkerNormalForm", "spec": spec, "atoms": sel, "invariants": invs + list(props), "distinct": r.distinct, "wall_s": round(r.wall, 1)})
        return [s for s in tla.load_dump(d + ".dump") if s["op"] != "init"] if dump else []
    finally:
        shutil.rmtree(tmp, ignore_errors=True)


# --------------------------------------------------------------------------- MarkerMergeGlue: MC + B1
GLUE_CFG = """SPECIFICATION GlueSpec
CONSTANTS
 N = 60
 GridMajors = {2, 3, 4}
 GridMinors = {0, 1, 8, 9, 10}
 GridMicros = {0, 1, 2, 99}
 RelVals = {0}
 MaxRelLen = 1
 Epochs = {0}
 Pres = {0}
 Posts = {0}
 Devs = {0}
 CandVals = {0}
 MaxCandLen = 1
 PfvPoints <- PfvNone
 RelPoints <- RelNone
 VerLits <- LitsGlue
 ListItems <- ItemsNone
 StrMax = 0
INVARIANT MergeSound
CHECK_DEADLOCK FALSE
"""
GLUE_VERSIONS = [(x, y, z) for x in (2, 3, 4) for y in (0, 1, 8, 9, 10) for z in (0, 1, 2, 99)]


def _glue_atom_text(a: dict) -> str:
    op, lit = a["op"], ".".join(str(v) for v in a["rel"])
    if op in ("==*", "!=*"):
        op, lit = op[:2], lit + ".*"
    return f'{a["var"]} {op} "{lit}"'


def _glue_chunk(states):
    from dep_logic.markers import parse_marker
    from dep_logic.markers.single import SingleMarker
    envs = [{"python_full_version": f"{x}.{y}.{z}", "python_version": f"{x}.{y}"} for (x, y, z) in GLUE_VERSIONS]
    fails, n, drift = [], 0, 0
    for st in states:
        t1, t2, kind = _glue_atom_text(st["a1"]), _glue_atom_text(st["a2"]), st["kind"]
        n += 1
        ctx = {"kind": "glue-vector", "a1": t1, "a2": t2, "op": kind, "spec": st["out"]["k"]}
        try:
            m1, m2 = parse_marker(t1), parse_marker(t2)
            r = (m1 & m2) if kind == "and" else (m1 | m2)
            got = [bool(r.evaluate(e)) for e in envs]
            want = [(bool(m1.evaluate(e)) and bool(m2.evaluate(e))) if kind == "and" else (bool(m1.evaluate(e)) or bool(m2.evaluate(e))) for e in envs]
        except Exception as e:  # noqa: BLE001
            fails.append((f"C02:glue-b1:{kind}({st['a1']['var']}:{st['a1']['op']},{st['a2']['var']}:{st['a2']['op']}):raises-{type(e).__name__}", f"{t1!r} {kind} {t2!r}: {e!r}", ctx))
            continue
        if got != want:
            bad = [envs[i]["python_full_version"] for i in range(len(envs)) if got[i] != want[i]][:4]
            fails.append((f"C02:glue-b1:{kind}({st['a1']['var']}:{st['a1']['op']},{st['a2']['var']}:{st['a2']['op']}):table",
                          f"{t1!r} {kind} {t2!r} -> {drive_marker._key(r)!r}: wrong on python {bad}", dict(ctx, result=drive_marker._key(r))))
        merged_real = isinstance(r, SingleMarker) or r.is_empty() or r.is_any()
        if merged_real != (st["out"]["k"] != "none"):
            drift += 1
    return n, fails, drift


def glue_mc(rep: Report, thorough: bool) -> None:
    """TLC on MarkerMergeGlue (python_version / python_full_version atom merging, composition of
    normalise -> interval algebra -> re-render) + replay of every pair on real markers."""
    tmp = tempfile.mkdtemp(prefix="verif_glue_")
    try:
        cfgp = os.path.join(tmp, "c.cfg")
        open(cfgp, "w").write(GLUE_CFG)
        d = os.path.join(tmp, "d")
        r = tla.run_tlc("MarkerMergeGlueMC.tla", cfgp, workers=16, args=["-dump", d], heap="4g")
        if r.violated:
            rep.violation(f"C02:spec:MarkerMergeGlue:{r.violated}", "TLC: MergeSound violated by the transcribed atom merging", {"tlc_tail": r.out[-2500:]})
            return
        tla.require_ok(r, "TLC MarkerMergeGlue")
        rep.add("states", r.distinct)
        rep.add("transitions", r.generated)
        rep.cov.setdefault("tlc_runs", []).append({"module": "MarkerMergeGlue", "invariants": ["MergeSound"], "distinct": r.distinct, "wall_s": round(r.wall, 1)})
        states = [s for s in tla.load_dump(d + ".dump") if s["kind"] != "init"]
    finally:
        shutil.rmtree(tmp, ignore_errors=True)
    size = max(1, len(states) // 32)
    total = drift = 0
    with mp.Pool(16) as pool:
        for n, fails, dr in pool.map(_glue_chunk, [states[i:i + size] for i in range(0, len(states), size)]):
            total += n
            drift += dr
            for (sig, detail, vec) in fails:
                rep.violation(sig, detail, vec)
    rep.add("traces_validated_against_impl", total)
    rep.count("glue_vectors_replayed", total)
    rep.count("glue_merge_decision_drift", drift)


# --------------------------------------------------------------------------- C07: every atom of MarkerSemantics round-trips
def _atom_roundtrip_chunk(args):
    states, envs = args
    from packaging.markers import Marker as PkgMarker
    from dep_logic.markers import parse_marker
    from . import check_markersem as ms
    fails, n = [], 0
    for st in states:
        a = st["item"]["a"]
        text = ms.atom_text(a)
        ctx_name = "lock_file" if a["kind"] == "member" else "metadata"
        n += 1
        site = f"{a['kind']},{a.get('var', 'extra')},{a['op']},{'literal-left' if a.get('rev') else 'literal-right'}"
        try:
            m = parse_marker(text)
            out = str(m)
            back = parse_marker(out)
            PkgMarker(out)
        except Exception as e:  # noqa: BLE001
            fails.append((f"C07:atom-b1({site}):raises-{type(e).__name__}", f"{text!r}: {e!r}", {"kind": "atom-roundtrip", "text": text}))
            continue
        for i, env in enumerate(envs):
            e = dict(env)
            if ctx_name == "lock_file":
                e.pop("extra", None)
                e["extras"] = set(env["extras"])
            else:
                e.pop("extras", None)
            want = bool(st["table"][i])
            got = bool(back.evaluate(dict(e), context=ctx_name))
            if got != want:
                fails.append((f"C07:atom-b1({site}):reparsed-evaluates-differently",
                              f"{text!r} renders as {out!r}, which evaluates {got} where the atom is {want} (python {e['python_full_version']}, os_name {e['os_name']!r})",
                              {"kind": "atom-roundtrip", "text": text, "rendered": out}))
                break
    return n, fails


def atom_roundtrip(rep: Report) -> None:
    """Every atom of the MarkerSemantics alphabet - BOTH operand orders, also for in / not in - is parsed, rendered
    and re-parsed in ONE process (so both orientations of the same atom meet), and the re-parsed marker is
    evaluated against the specification's table."""
    from . import check_markersem as ms
    envs, states = ms._tlc(rep, "AtomsSpec", ["ReflectionSound"])
    vecs = [s for s in states if s["phase"] == "evaluated"]
    envs_small = envs[:: max(1, len(envs) // 120)]
    idx = list(range(0, len(envs), max(1, len(envs) // 120)))
    for v in vecs:
        v["table"] = [v["table"][i] for i in idx]
    size = max(1, len(vecs) // 16)
    total = 0
    # one process per chunk, but each chunk holds atoms AND their mirrored spellings: sort by (var, op-reflection-class, literal)
    vecs.sort(key=lambda v: (v["item"]["a"]["kind"], str(v["item"]["a"].get("var")), str(v["item"]["a"].get("rel", v["item"]["a"].get("lit", v["item"]["a"].get("name")))), v["item"]["a"]["op"]))
    with mp.Pool(8) as pool:
        for n, fails in pool.map(_atom_roundtrip_chunk, [(vecs[i:i + size], envs_small) for i in range(0, len(vecs), size)]):
            total += n
            for (sig, detail, vec) in fails:
                rep.violation(sig, detail, vec)
    rep.add("traces_validated_against_impl", total)
    rep.count("atoms_roundtripped", total)


# --------------------------------------------------------------------------- B2: behaviours of the Closure machine on real markers
def _nf_b2_chunk(args):
    files, vars_, dom = args
    from dep_logic.markers import parse_marker
    grid = nf_grid(vars_, dom)
    envs = [env for _, env in grid]
    fails, steps = [], 0
    for path in files:
        try:
            beh = tla.parse_sim_file(path)
            if not beh:
                continue
        except Exception:  # noqa: BLE001 - the time-boxed simulation may be stopped while writing its last file
            continue
        try:
            x, y = parse_marker(nf_text(beh[0]["x"])), parse_marker(nf_text(beh[0]["y"]))
        except Exception as e:  # noqa: BLE001
            fails.append(("C07", f"C07:nf-b2:parse-raises-{type(e).__name__}", repr(e), {"kind": "nf-behaviour"}))
            continue
        trail = []
        for st in beh[1:]:
            op = st["op"]
            trail.append(op)
            ctx = {"kind": "nf-behaviour", "init": [nf_text(beh[0]["x"]), nf_text(beh[0]["y"])], "trail": list(trail)}
            if op == "swap":
                x, y = y, x
                continue
            res, exc = drive_marker.timed((lambda: x & y) if op == "and" else (lambda: x | y))
            if exc == "Timeout":
                break
            if exc:
                fails.append(("C02", f"C02:nf-b2:{op}:raises-{exc}", f"{ctx['init']} then {trail}: {exc}", ctx))
                break
            steps += 1
            want = [nf_holds(st["x"], ab) for ab, _ in grid]
            got = drive_marker.table_of(res, envs)
            ctx["result"] = drive_marker._key(res)
            if got != want:
                fails.append(("C02", f"C02:nf-b2:{op}:table", f"{ctx['init']} then {trail} -> {ctx['result']!r}: truth table differs from the specification's register", ctx))
                break
            reason = nf_reason(drive_marker.shape_of(res))
            if reason:
                fails.append(("C15", f"C15:{op}:normal_form:{reason}", f"{ctx['init']} then {trail} -> {ctx['result']!r}", ctx))
            try:
                text = str(res)
                if ("<empty>" in text and not res.is_empty()) or drive_marker.table_of(parse_marker(text), envs) != got:
                    fails.append(("C07", f"C07:nf-b2:{op}:roundtrip", f"{ctx['init']} then {trail} renders as {text!r}", ctx))
            except Exception as e:  # noqa: BLE001
                fails.append(("C07", f"C07:nf-b2:{op}:raises-{type(e).__name__}", repr(e), ctx))
            x = res
    return steps, fails


def nf_behaviours(rep: Report, pid: str, num: int, depth: int) -> None:
    """B2 for markers: TLC -simulate behaviours of MarkerNormalForm/Closure (results become operands) are stepped
    through REAL marker objects; after every step the truth table, the normal form and the rendering are checked."""
    tmp = tempfile.mkdtemp(prefix="verif_nfb2_")
    try:
        cfgp = os.path.join(tmp, "c.cfg")
        open(cfgp, "w").write('SPECIFICATION ClosureSpec\nCONSTANTS\n Vars = {"p", "r"}\n Dom = {1, 2, 3}\n AtomSel <- SelQuick\nINVARIANT ClosureNormal\nCHECK_DEADLOCK FALSE\n')
        os.makedirs(os.path.join(tmp, "sim"))
        # simulation cost grows quickly with the depth (results become operands); it is time-boxed and
        # whatever behaviours were written by then are replayed
        r = tla.run_tlc("MarkerNormalFormMC.tla", cfgp, workers=1, timeout=240, heap="4g",
                        args=["-simulate", f"file={tmp}/sim/tr,num={num}", "-depth", str(depth), "-seed", str(rep.seed + 5)])
        if r.violated:
            rep.violation(f"{pid}:spec:MarkerNormalForm:simulate:{r.violated}", "TLC simulation violated ClosureNormal", {"tlc_tail": r.out[-1500:]})
        files = sorted(os.path.join(tmp, "sim", f) for f in os.listdir(os.path.join(tmp, "sim")))
        if not files:
            raise tla.MachineryError("TLC -simulate wrote no behaviour files: " + r.out[-600:])
        size = max(1, len(files) // 32)
        steps = 0
        with mp.Pool(16) as pool:
            for n, fails in pool.map(_nf_b2_chunk, [(files[i:i + size], ["p", "r"], [1, 2, 3]) for i in range(0, len(files), size)]):
                steps += n
                for (p, sig, detail, vec) in fails:
                    if p == pid:
                        rep.violation(sig, detail, vec)
        rep.add("traces_validated_against_impl", len(files))
        rep.count("nf_behaviours_replayed", len(files))
        rep.count("nf_behaviour_steps", steps)
    finally:
        shutil.rmtree(tmp, ignore_errors=True)


def normal_form_mc(rep: Report, pid: str, thorough: bool) -> None:
    """TLC on MarkerNormalForm (the transcribed rewriting engine) + replay of every transition."""
    if pid == "C12":
        # projections: the Proj configuration (larger inputs, every variable) is the relevant one
        states = _nf_extra(rep, "ProjSpec", "SelQuick" if thorough else "SelProj", ["Projections", "ResultNormal"], dump=True)
        _nf_replay(rep, pid, states)
        # four variables, alternatives that become comparable only after elimination (Fam3)
        states4 = _nf_extra(rep, "ProjSpec", "SelFour", ["Projections", "ResultNormal"], dump=True, vars_='{"p", "r", "q", "t"}', dom="{1, 2}")
        _nf_replay(rep, pid, states4, vars_=("p", "r", "q", "t"), dom=(1, 2))
        # three variables, two atoms on two of them: conjunctions of alternatives whose parts cancel after elimination (Fam4)
        states5 = _nf_extra(rep, "ProjSpec", "SelFive", ["Projections", "ResultNormal"], dump=True, vars_='{"p", "q", "r"}', dom="{1, 2, 3}")
        _nf_replay(rep, pid, states5, vars_=("p", "q", "r"), dom=(1, 2, 3))
        return
    tmp = tempfile.mkdtemp(prefix="verif_nf_")
    try:
        cfgp = os.path.join(tmp, "c.cfg")
        invs = {"C02": ["Sound", "InputsNormal"], "C15": ["ResultNormal", "InputsNormal"], "C12": ["Projections"], "C07": ["InputsNormal"]}[pid]
        open(cfgp, "w").write('SPECIFICATION PairsSpec\nCONSTANTS\n Vars = {"p", "r"}\n Dom = {1, 2, 3}\n AtomSel <- SelQuick\n' +
                              "".join(f"INVARIANT {i}\n" for i in invs) + "CHECK_DEADLOCK FALSE\n")
        d = os.path.join(tmp, "d")
        r = tla.run_tlc("MarkerNormalFormMC.tla", cfgp, workers=16, args=["-dump", d], heap="6g")
        if r.violated:
            rep.violation(f"{pid}:spec:MarkerNormalForm:{r.violated}", f"TLC: invariant {r.violated} violated by the transcribed rewriting engine", {"tlc_tail": r.out[-2500:]})
            return
        tla.require_ok(r, "TLC MarkerNormalForm")
        rep.add("states", r.distinct)
        rep.add("transitions", r.generated)
        rep.cov.setdefault("tlc_runs", []).append({"module": "MarkerNormalForm", "invariants": invs, "distinct": r.distinct, "wall_s": round(r.wall, 1)})
        states = [s for s in tla.load_dump(d + ".dump") if s["op"] != "init"]
    finally:
        shutil.rmtree(tmp, ignore_errors=True)
    if not thorough:
        import random
        random.Random(rep.seed).shuffle(states)
        states = states[:12000]
    _nf_replay(rep, pid, states)


def _nf_replay(rep: Report, pid: str, states: list, vars_=("p", "r"), dom=(1, 2, 3)) -> None:
    size = max(1, len(states) // 48)
    total = 0
    with mp.Pool(16) as pool:
        for n, fails in pool.map(_nf_chunk, [(states[i:i + size], list(vars_), list(dom)) for i in range(0, len(states), size)]):
            total += n
            for (p, sig, detail, vec) in fails:
                if p == pid:
                    rep.violation(sig, detail, vec)
    rep.add("traces_validated_against_impl", total)
    rep.count("normal_form_vectors_replayed", total)
    if states:
        rep.sample({"binding": "B1-normal-form", "x": nf_text(states[0]["x"]), "y": nf_text(states[0]["y"]), "op": states[0]["op"], "spec_result": nf_text(states[0]["res"])})


def run(pid: str, tier: str, replay: str | None = None) -> int:
    rep = Report(pid, tier, "model_checking")
    thorough = tier == "thorough"
    if replay and json.load(open(replay))["vector"].get("kind") == "marker-session":
        return _replay(rep, replay)
    if pid in ("C02", "C15", "C12", "C07"):
        normal_form_mc(rep, pid, thorough)
    if pid in ("C02", "C15", "C07"):
        nf_behaviours(rep, pid, num=(3000 if thorough else 500), depth=(7 if thorough else 6))
    if pid == "C07":
        atom_roundtrip(rep)
    if pid == "C02":
        glue_mc(rep, thorough)
    if pid in ("C02", "C15", "C07"):
        group_algebra_mc(rep, pid, thorough)
        # results fed back as operands, breadth-first to depth 3 (design level only)
        _nf_extra(rep, "ClosureSpec", "SelQuick" if thorough else "SelTiny", ["ClosureNormal"], dump=False, props=["ClosureSound"], constraint="ClosureBound")
    marker_sessions(rep, (pid,), n_random=(8000 if thorough else 900), n_law=(3000 if thorough else (800 if pid == "C12" else 400)))
    rep.set(rule="random marker sessions (2-3 parsed markers of depth <= 2 over 2-3 variables, then &, |, reparse, only, exclude, "
                 "without_extras on earlier results); truth tables from the real evaluate() on the region grid of the session's literals; "
                 "every event validated by TLC against MarkerSessionTrace")
    rep.assumptions += ["evaluate() itself is bound to packaging by C03", "environment grids larger than 96 points are sampled (grid_complete false)",
                        "a call exceeding 2 s is skipped (Timeout), never a verdict"]
    return rep.finish()


def _replay(rep: Report, path: str) -> int:
    doc = json.load(open(path))
    vec = doc["vector"]
    kind = vec.get("session_kind") or ("law" if vec.get("law") else "random")
    s = {"law": drive_marker.law_session, "interchange": drive_marker.interchange_session, "random": drive_marker.random_session,
         "blowup": drive_marker.blowup_session}[kind](1, vec["seed"])
    s["sid"] = 1
    tmp = tempfile.mkdtemp(prefix="verif_ms_")
    try:
        states, rej = validate([s], tmp)
    finally:
        shutil.rmtree(tmp, ignore_errors=True)
    for sid, l, bad in rej:
        for p, clause in bad:
            if p == rep.pid:
                rep.violation(classify(p, clause, s, l), f"event {l} fails {clause}", {"kind": "marker-session", "seed": vec["seed"], "law": vec.get("law"), "event": l, "clause": clause})
    rep.set(states=max(states, 1), transitions=max(states, 1), traces_validated_against_impl=1)
    rep.sample({"replayed": path})
    return rep.finish()
