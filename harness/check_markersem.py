"""C03 (evaluate agrees with packaging) and C11 (marker <-> specifier bridge).

MC  specs/MarkerSemantics.tla: Atoms (every atom of the alphabet x every grid environment; ReflectionSound,
    ViewExact), Trees (depth-2 and/or trees), FromSpec (FromSpecExact).
B1  every dumped atom / tree / range is rendered to text and evaluated three ways: the specification's
    table (TLC), packaging.markers.Marker, dep_logic.  spec != packaging is a specification error (exit 2).
"""
from __future__ import annotations

import multiprocessing as mp
import os
import shutil
import tempfile

from . import tla
from .engine import Report

BASE = {"RelVals": "{0}", "MaxRelLen": 1, "Epochs": "{0}", "Pres": "{0}", "Posts": "{0}", "Devs": "{0}", "CandVals": "{0}", "MaxCandLen": 1,
        "PfvPoints": "<- PfvQuick", "RelPoints": "<- RelQuick", "VerLits": "<- LitsQuick", "ListItems": "<- ItemsQuick", "StrMax": 2,
        "TreeAtomSel": "<- TreeSelQuick"}
FRAG = {"a": "nt", "b": "posix"}
NAMES = {(1, 1): "foo", (2, 1): "Foo_Bar", (2, 2): "foo-bar", (3, 1): "baz", (0, 1): ""}


def _tlc(rep: Report, spec: str, invs: list[str], consts=None):
    consts = consts or BASE
    tmp = tempfile.mkdtemp(prefix="verif_msem_")
    try:
        cfgp = os.path.join(tmp, "c.cfg")
        lines = [f"SPECIFICATION {spec}", "CONSTANTS"]
        for k, v in consts.items():
            lines.append(f" {k} {v}" if str(v).startswith("<-") else f" {k} = {v}")
        lines += [f"INVARIANT {i}" for i in invs] + ["CHECK_DEADLOCK FALSE"]
        open(cfgp, "w").write("\n".join(lines) + "\n")
        d = os.path.join(tmp, "d")
        r = tla.run_tlc("MarkerSemanticsMC.tla", cfgp, workers=16, args=["-dump", d])
        if r.violated:
            rep.violation(f"{rep.pid}:spec:{spec}:{r.violated}", f"TLC: invariant {r.violated} violated in MarkerSemantics/{spec}", {"tlc_tail": r.out[-1500:]})
        else:
            tla.require_ok(r, f"TLC MarkerSemantics {spec}")
        rep.add("states", r.distinct)
        rep.add("transitions", r.generated)
        rep.cov.setdefault("tlc_runs", []).append({"spec": spec, "invariants": invs, "distinct": r.distinct, "wall_s": round(r.wall, 1)})
        envs = tla.printed_values(r.out, "ENVS")
        if not envs:
            raise tla.MachineryError("TLC output lacks ENVS")
        return [env_dict(e) for e in envs[0][1]], tla.load_dump(d + ".dump")
    finally:
        shutil.rmtree(tmp, ignore_errors=True)


# --------------------------------------------------------------------------- rendering
def rel_text(rel) -> str:
    return ".".join(str(x) for x in rel)


def name_text(n) -> str:
    if isinstance(n, tuple):          # records inside TLA+ sets are frozen into sorted (key, value) tuples
        n = dict(n)
    return NAMES[(n["cls"], n["sp"])]


def env_dict(e: dict) -> dict:
    pfv = e["pfv"]
    return {"python_full_version": rel_text(pfv), "python_version": f"{pfv[0]}.{pfv[1]}", "platform_release": rel_text(e["rel"]),
            "os_name": "".join(FRAG[c] for c in e["os"]), "extra": name_text(e["extra"]),
            "extras": sorted(name_text(n) for n in e["extras"])}


LIST_SEP = [", "]          # how `in` lists are joined; the atom replay also uses "," (both spellings are common)


def atom_text(a: dict) -> str:
    k = a["kind"]
    if k == "ver":
        op, lit = a["op"], rel_text(a["rel"])
        if op in ("==*", "!=*"):
            op, lit = op[:2], lit + ".*"
        return f'"{lit}" {op} {a["var"]}' if a["rev"] else f'{a["var"]} {op} "{lit}"'
    if k == "list":
        return f'{a["var"]} {a["op"]} "{LIST_SEP[0].join(rel_text(i) for i in a["items"])}"'
    if k == "str":
        lit = "".join(FRAG[c] for c in a["lit"])
        return f'"{lit}" {a["op"]} {a["var"]}' if a["rev"] else f'{a["var"]} {a["op"]} "{lit}"'
    if k == "extra":
        return f'"{name_text(a["name"])}" {a["op"]} extra' if a["rev"] else f'extra {a["op"]} "{name_text(a["name"])}"'
    return f'"{name_text(a["name"])}" {a["op"]} {a["var"]}'


def tree_text(t: dict, variant: int = 0, top=True) -> str:
    if t["k"] == "atom":
        s = atom_text(t["a"])
        return f"({s})" if variant == 2 else s
    parts = []
    for c in t["ch"]:
        s = tree_text(c, variant, top=False)
        if c["k"] != "atom" and (variant >= 1 or c["k"] != t["k"] or True):
            s = f"({s})"
        parts.append(s)
    return f" {t['k']} ".join(parts)


def uses_lock_context(t: dict) -> bool:
    if t["k"] == "atom":
        return t["a"]["kind"] == "member"
    return any(uses_lock_context(c) for c in t["ch"])


def _site(t: dict) -> str:
    if t["k"] == "atom":
        a = t["a"]
        return f"{a['kind']},{a.get('var', 'extra')},{a['op']},{'literal-left' if a.get('rev') else 'literal-right'}"
    return f"tree-{t['k']}"


# --------------------------------------------------------------------------- workers
def _eval_chunk(args):
    states, envs = args
    from packaging.markers import Marker as PkgMarker
    from dep_logic.markers import parse_marker
    fails, n, spec_err = [], 0, []
    for st in states:
        t = st["item"]
        ctx_name = "lock_file" if uses_lock_context(t) else "metadata"
        is_list = t["k"] == "atom" and t["a"]["kind"] == "list" and len(t["a"]["items"]) > 1
        for variant in ((0, 5) if is_list else (0,) if t["k"] == "atom" else (0, 2)):
            LIST_SEP[0] = "," if variant == 5 else ", "          # variant 5: the list without blanks, "3.8,3.10"
            text = tree_text(t, 0 if variant == 5 else variant)
            LIST_SEP[0] = ", "
            try:
                pm = PkgMarker(text)
            except Exception as e:  # noqa: BLE001
                spec_err.append(f"packaging rejects generated text {text!r}: {e!r}")
                continue
            try:
                dm = parse_marker(text)
            except Exception as e:  # noqa: BLE001
                fails.append(("C03", f"C03:parse({_site(t)}):raises-{type(e).__name__}", f"{text!r}: {e!r}", {"text": text}))
                continue
            for i, env in enumerate(envs):
                want = bool(st["table"][i])
                e = dict(env)
                if ctx_name == "lock_file":
                    e.pop("extra", None)
                    e["extras"] = set(env["extras"])
                else:
                    e.pop("extras", None)
                n += 1
                try:
                    ref = bool(pm.evaluate(dict(e), context=ctx_name))
                except Exception as ex:  # noqa: BLE001
                    spec_err.append(f"packaging raised on {text!r} in {e}: {ex!r}")
                    break
                if ref != want:
                    spec_err.append(f"{text!r} in {e}: packaging {ref}, specification {want}")
                    break
                try:
                    got = bool(dm.evaluate(dict(e), context=ctx_name))
                except Exception as ex:  # noqa: BLE001
                    fails.append(("C03", f"C03:evaluate({_site(t)}):raises-{type(ex).__name__}", f"{text!r} in {e}: {ex!r}", {"text": text, "env": e}))
                    break
                if got != ref:
                    fails.append(("C03", f"C03:evaluate({_site(t)}):differs-from-packaging",
                                  f"{text!r} in python_full_version={e['python_full_version']} os_name={e['os_name']!r} extra={e.get('extra')!r}: dep-logic {got}, packaging {ref}",
                                  {"text": text, "env": {k: (sorted(v) if isinstance(v, set) else v) for k, v in e.items()}, "context": ctx_name}))
                    break
            # environments outside the specification's grid, two-way (packaging is C03's reference): an interpreter built
            # from a development tree reports a LOCAL version (`3.9.1+`, which packaging reads as `3.9.1+local`)
            # (literal-left ORDERING atoms are left out: `Specifier(">=3.8.0+local")` is invalid, both libraries fall back to
            #  something - packaging to False, dep-logic to a string comparison - and no standard says what it should be)
            if t["k"] == "atom" and t["a"]["kind"] in ("ver", "list") and t["a"]["var"] in ("python_version", "python_full_version") and variant == 0 \
                    and not (t["a"].get("rev") and t["a"]["op"] not in ("==", "!=")):
                for full in ("3.8.0+local", "3.9.1+cpython.1", "3.10.0+local"):
                    e = dict(envs[0])
                    e.pop("extras", None)
                    e["python_full_version"] = full
                    e["python_version"] = ".".join(full.split("+")[0].split(".")[:2])
                    n += 1
                    try:
                        ref = bool(pm.evaluate(dict(e)))
                    except Exception:  # noqa: BLE001
                        continue
                    try:
                        got = bool(dm.evaluate(dict(e)))
                    except Exception as ex:  # noqa: BLE001
                        fails.append(("C03", f"C03:evaluate({_site(t)}):local-version:raises-{type(ex).__name__}", f"{text!r} on python_full_version {full}: {ex!r}", {"text": text, "env": e}))
                        break
                    if got != ref:
                        fails.append(("C03", f"C03:evaluate({_site(t)}):local-version:differs-from-packaging", f"{text!r} on python_full_version {full}: dep-logic {got}, packaging {ref}", {"text": text, "env": {k: str(v) for k, v in e.items()}}))
                        break
            # C11: the specifier view of python-version atoms
            if t["k"] == "atom" and t["a"]["kind"] in ("ver", "list") and t["a"]["var"] in ("python_version", "python_full_version") and variant in (0, 5):
                a = t["a"]
                seen = set()
                for i, env in enumerate(envs):
                    val = env[a["var"]]
                    if val in seen:
                        continue
                    seen.add(val)
                    n += 1
                    try:
                        inview = bool(val in dm.specifier)
                        if hasattr(dm.specifier, "contains") and bool(dm.specifier.contains(val)) != inview:
                            inview = not bool(st["table"][i])           # `in` and contains() disagree: one of them is wrong
                    except Exception as ex:  # noqa: BLE001
                        fails.append(("C11", f"C11:view({a['kind']},{a['var']},{a['op']}):raises-{type(ex).__name__}", f"{text!r}: {ex!r}", {"text": text}))
                        break
                    truth = bool(st["table"][i])
                    if inview == truth:
                        # the statement relates the view to what the atom REALLY evaluates to
                        try:
                            e2 = dict(env)
                            e2.pop("extras", None)
                            real = bool(dm.evaluate(e2))
                        except Exception:  # noqa: BLE001 (reported by C03)
                            real = truth
                        truth = real
                    if inview != truth:
                        if a["kind"] == "list":
                            items = [rel_text(x) for x in a["items"]]
                            lit = ", ".join(items)
                            if (val in lit) != (val in items):
                                sig = "C11:view(in-list):env-substring-of-list-not-element"
                            else:
                                sig = f"C11:view(list,{a['op']}):differs-from-evaluate"
                        else:
                            sig = f"C11:view(ver,{a['var']},{a['op']},{'literal-left' if a['rev'] else 'literal-right'},{len(a['rel'])}seg):differs-from-evaluate"
                        fails.append(("C11", sig, f"{text!r}: {val} in marker.specifier is {inview} but the atom evaluates {truth}", {"text": text, "value": val}))
                        break
    return n, fails, spec_err


def _fromspec_chunk(args):
    states, envs = args
    from packaging.version import Version
    from dep_logic.markers.single import MarkerExpression
    from dep_logic.specifiers import RangeSpecifier
    fails, n = [], 0
    from dep_logic.specifiers import parse_version_specifier
    for st in states:
        it = st["item"]
        name = it["name"]
        if it["k"] == "fromclause":
            cl = it["cl"]
            op, lit = cl["op"], rel_text(cl["v"]["rel"])
            text = f"{op[:2]}{lit}.*" if op in ("==*", "!=*") else f"{op}{lit}"
            spec = parse_version_specifier(text)
            shape = f"parsed {op}"
            ctx = {"name": name, "spec": text}
        elif it["k"] == "fromhole":
            from dep_logic.specifiers import UnionSpecifier
            h = it["h"]
            lo, hi = Version(rel_text(h["lo"]["rel"])), Version(rel_text(h["hi"]["rel"]))
            spec = UnionSpecifier((RangeSpecifier(max=lo, include_max=bool(h["ui"])), RangeSpecifier(min=hi, include_min=bool(h["li"]))))
            shape = "hole"
            ctx = {"name": name, "spec": f"<{'=' if h['ui'] else ''}{lo}||>{'=' if h['li'] else ''}{hi}"}
        else:
            r = it["r"]
            lo = Version(rel_text(r["lo"][0]["rel"])) if r["lo"] else None
            hi = Version(rel_text(r["hi"][0]["rel"])) if r["hi"] else None
            spec = RangeSpecifier(min=lo, max=hi, include_min=bool(r["li"]), include_max=bool(r["ui"]))
            shape = ("eq" if lo is not None and lo == hi else "two-sided" if lo is not None and hi is not None else "one-sided")
            ctx = {"name": name, "spec": {"lo": str(lo), "hi": str(hi), "li": r["li"], "ui": r["ui"]}}
        # the same range as a user obtains it: a comma set, in either clause order (the parser intersects the clauses)
        variants = [(spec, shape, None)]
        if it["k"] not in ("fromclause", "fromhole") and lo is not None and hi is not None and lo != hi:
            c_lo, c_hi = f"{'>=' if r['li'] else '>'}{lo}", f"{'<=' if r['ui'] else '<'}{hi}"
            texts = [f"{c_lo},{c_hi}", f"{c_hi},{c_lo}"]
            if r["ui"]:            # the closed upper end as a separate pin, joined by the union operator in either order
                texts += [f"{c_lo},<{hi}||=={hi}", f"=={hi}||{c_lo},<{hi}"]
            if r["li"]:
                texts += [f"=={lo}||>{lo},{c_hi}", f">{lo},{c_hi}||=={lo}"]
            for txt in texts:
                try:
                    variants.append((parse_version_specifier(txt), shape + ",parsed", txt))
                except Exception as e:  # noqa: BLE001
                    fails.append(("C11", f"C11:from_specifier({name},{shape},parsed):parse-raises-{type(e).__name__}", f"{txt}: {e!r}", ctx))
        for spec, shape, txt in variants:
            _fromspec_one(it, st, name, spec, shape, dict(ctx, text=txt) if txt else ctx, envs, fails, text if it["k"] == "fromclause" else txt,
                          lo if it["k"] != "fromclause" else None, hi if it["k"] != "fromclause" else None, h if it["k"] == "fromhole" else None, r if it["k"] not in ("fromclause", "fromhole") else None)
            n += 1
    return n, fails


def _fromspec_one(it, st, name, spec, shape, ctx, envs, fails, text, lo, hi, h, r):
    from packaging.version import Version
    from dep_logic.markers.single import MarkerExpression
    n = 0
    if True:
        try:
            m = MarkerExpression.from_specifier(name, spec)
        except Exception as e:  # noqa: BLE001
            fails.append(("C11", f"C11:from_specifier({name},{shape}):raises-{type(e).__name__}", repr(e), ctx))
            return
        if m is None:
            return
        seen = set()
        for i, env in enumerate(envs):
            val = env[name]
            if val in seen:
                continue
            seen.add(val)
            n += 1
            # what the specifier admits, by an oracle that does not run the library: packaging on the clause text,
            # plain version comparisons on constructed ranges / holes
            V = Version(val)
            if it["k"] == "fromclause":
                from packaging.specifiers import SpecifierSet
                want = bool(SpecifierSet(text).contains(val, prereleases=True))
            elif it["k"] == "fromhole":
                want = (V < lo or (h["ui"] and V == lo)) or (V > hi or (h["li"] and V == hi))
            else:
                want = (lo is None or V > lo or (r["li"] and V == lo)) and (hi is None or V < hi or (r["ui"] and V == hi))
            want = bool(want)
            if st["table"] and bool(st["table"][i]) != want:
                raise tla.MachineryError(f"specification disagrees with the reference oracle on the specifier for {ctx} at {val}")
            try:
                got = bool(m.evaluate(dict(env, extras=set())))
                lib_in = bool(val in spec)
                lib_contains = bool(spec.contains(val)) if hasattr(spec, "contains") else lib_in
            except Exception as e:  # noqa: BLE001
                fails.append(("C11", f"C11:from_specifier({name},{shape}):evaluate-raises-{type(e).__name__}", repr(e), ctx))
                break
            if lib_in != want or lib_contains != want:
                which = "in" if lib_in != want else "contains"
                fails.append(("C11", f"C11:specifier-membership({shape},{which}):differs", f"{val} {which} {spec} is {not want}; the specifier's set {'admits' if want else 'rejects'} it", dict(ctx, value=val)))
                break
            if got != want:
                txt = str(m)
                fails.append(("C11", f"C11:from_specifier({name},{shape},{txt.split()[1] if ' ' in txt else ''}):atom-differs-from-specifier",
                              f"from_specifier({name!r}, {spec}) = {txt!r}: evaluates {got} on {val} but the specifier {'admits' if want else 'rejects'} it", dict(ctx, atom=txt, value=val)))
                break


def _pmap(fn, jobs):
    with mp.Pool(16) as pool:
        return pool.map(fn, jobs)


def _split(xs, k=48):
    size = max(1, (len(xs) + k - 1) // k)
    return [xs[i:i + size] for i in range(0, len(xs), size)]


def run(pid: str, tier: str, replay: str | None = None) -> int:
    rep = Report(pid, tier, "model_checking")
    total = 0
    spec_err = []
    envs, states = _tlc(rep, "AtomsSpec", ["ReflectionSound", "ViewExact", "NormalizeExact"])
    vecs = [s for s in states if s["phase"] == "evaluated"]
    for n, fails, se in _pmap(_eval_chunk, [(ch, envs) for ch in _split(vecs)]):
        total += n
        spec_err += se
        for (p, sig, detail, vec) in fails:
            if p == pid:
                rep.violation(sig, detail, vec)
    rep.count("atoms", len(vecs))
    rep.count("environments", len(envs))
    rep.sample({"atom": atom_text(vecs[len(vecs) // 2]["item"]["a"]), "env": envs[len(envs) // 2]})
    if pid == "C03":
        envs2, states = _tlc(rep, "TreesSpec", ["TreePointwise"],
                             dict(BASE, PfvPoints="<- PfvSmall", RelPoints="<- RelOne", TreeAtomSel="<- TreeSelWide"))
        tv = [s for s in states if s["phase"] == "evaluated" and s["item"]["k"] != "atom"]
        if tier != "thorough":
            import random
            # every depth-1 tree (two atoms, where parse-time merging happens) + a sample of the depth-2 ones
            shallow = [s for s in tv if all(c["k"] == "atom" for c in s["item"]["ch"])]
            deep = [s for s in tv if not all(c["k"] == "atom" for c in s["item"]["ch"])]
            random.Random(rep.seed).shuffle(deep)
            tv = shallow + deep[:1500]
        for n, fails, se in _pmap(_eval_chunk, [(ch, envs2) for ch in _split(tv)]):
            total += n
            spec_err += se
            for (p, sig, detail, vec) in fails:
                if p == pid:
                    rep.violation(sig, detail, vec)
        rep.count("trees", len(tv))
        rep.sample({"tree": tree_text(tv[0]["item"])})
    if pid == "C11":
        envs3, states = _tlc(rep, "FromSpecSpec", ["FromSpecExact"])
        fv = [s for s in states if s["phase"] == "converted"]
        for n, fails in _pmap(_fromspec_chunk, [(ch, envs3) for ch in _split(fv, 16)]):
            total += n
            for (p, sig, detail, vec) in fails:
                rep.violation(sig, detail, vec)
        rep.count("from_specifier_ranges", len(fv))
    if pid == "C03":
        # parse events of recorded marker sessions carry packaging's verdict per environment (clause C03)
        from . import check_marker
        check_marker.marker_sessions(rep, ("C03",), n_random=(3000 if tier == "thorough" else 300), n_law=0, selfcheck=False)
    if spec_err:
        raise tla.MachineryError("specification disagrees with packaging (the reference of C03): " + " | ".join(spec_err[:4]))
    rep.add("traces_validated_against_impl", total)
    rep.set(rule="every atom of the alphabet (3 version variables x 9 operators x 6 literals x both operand orders, in/not in lists, "
                 "string atoms over all letter sequences of length <= 2, extra ==/!=, `name in extras`) x every grid environment; "
                 "depth-2 and/or trees with redundant parentheses; every simple range over the literal pool through from_specifier",
            exhaustive=True)
    rep.assumptions += ["reference = the installed packaging (26.3)", "environment versions are final releases X.Y.Z (pre-/post-release interpreters are a separate class)"]
    return rep.finish()
