"""C10: memoisation is transparent.

MC  specs/MemoCache.tla: every history of <= 3 operations over atoms written either way round;
    MeaningTransparent holds, TextTransparent does not (named deviation FirstCallerReversed).
B2  every TLC behaviour (history; the last operation is the probe) is executed on the real library
    twice - warm (the history in one process with the caches as the earlier operations left them) and
    cold (all four lru_caches emptied, operands parsed afresh, probe only) - and str() + truth table of
    the probe result are compared.
B3  random histories over richer operands (python_version / python_full_version pairs, '3.10' vs
    '3.10.0', ==/!= groups, results re-rendered by the library), every position probed against a cold run;
    thorough tier: cold runs in a fresh interpreter.
"""
from __future__ import annotations

import json
import multiprocessing as mp
import os
import random
import re
import shutil
import subprocess
import sys
import tempfile

from . import drive_marker, tla
from .engine import Report

GRID = [{"python_full_version": f"3.{m}.{p}", "python_version": f"3.{m}", "sys_platform": sp, "os_name": on, "extra": ex}
        for m in (6, 7, 8, 9, 10, 11) for p in (0, 1) for sp, on, ex in (("linux", "posix", []), ("win32", "nt", ["foo"]), ("darwin", "java", ["bar"]))]


def atom_text(a: dict) -> str:
    v = f"3.{a['b']}"
    return f'"{v}" <= python_version' if a["rev"] else f'python_version >= "{v}"'


GX, GY = 'sys_platform == "x"', 'platform_machine == "y"'


def group_text(g) -> str:
    return " or ".join(f'os_name == "{v}"' for v in g)


def run_op(op: dict):
    """One operation as a user would write it: parse the two texts, combine."""
    from dep_logic.markers import parse_marker
    if op["kind"] in ("and_or", "or_and"):          # MemoGroups: (g & X) | Y   /   (g | X) & Y, built through the operators
        g, x, y = parse_marker(op["x"]), parse_marker(GX), parse_marker(GY)
        return ((g & x) | y) if op["kind"] == "and_or" else ((g | x) & y)
    x, y = parse_marker(op["x"]), parse_marker(op["y"])
    if op["kind"] == "and":
        return x & y
    if op["kind"] == "or":
        return x | y
    return x      # "parse": the result of parsing x


def observe(m) -> tuple[str, list[bool]]:
    return str(m), drive_marker.table_of(m, GRID)


def _norm_reversed(text: str) -> str:
    """Rewrite every literal-left atom `"v" op var` as `var op' "v"` (for classification only)."""
    refl = {"<": ">", "<=": ">=", ">": "<", ">=": "<=", "==": "==", "!=": "!=", "~=": "~="}
    return re.sub(r'"([^"]*)"\s*(<=|>=|==|!=|~=|<|>)\s*(\w+)', lambda m: f'{m.group(3)} {refl[m.group(2)]} "{m.group(1)}"', text)


def _norm_groups(text: str) -> str:
    """Sort the values inside same-variable ==-disjunctions / !=-conjunctions (classification only)."""
    def fix(m, op, conn):
        var = m.group(1)
        vals = sorted(re.findall(r'"([^"]*)"', m.group(0)))
        return f" {conn} ".join(f'{var} {op} "{v}"' for v in vals)
    text = re.sub(r'(\w+) == "[^"]*"(?: or \1 == "[^"]*")+', lambda m: fix(m, "==", "or"), text)
    text = re.sub(r'(\w+) != "[^"]*"(?: and \1 != "[^"]*")+', lambda m: fix(m, "!=", "and"), text)
    return text


def compare(warm, cold) -> tuple[bool, bool, str]:
    """(text_ok, meaning_ok, class of a text difference)"""
    (tw, mw), (tc, mc) = warm, cold
    meaning_ok = mw == mc
    if tw == tc:
        return True, meaning_ok, ""
    if _norm_reversed(tw) == _norm_reversed(tc):
        return False, meaning_ok, "first-caller-reversed"
    if _norm_groups(tw) == _norm_groups(tc):
        return False, meaning_ok, "first-caller-group-order"
    if _norm_groups(_norm_reversed(tw)) == _norm_groups(_norm_reversed(tc)):
        return False, meaning_ok, "first-caller-reversed+group-order"
    return False, meaning_ok, "other"


def _operand_class(op: dict) -> str:
    """atomic: the probe combines (or parses) single atoms only; compound: an operand is itself a tree."""
    texts = [op["x"]] + ([op["y"]] if op["kind"] != "parse" else [])
    n_atoms = sum(len(re.findall(r"(?:==|!=|<=|>=|~=|<|>| in )", t)) for t in texts)
    if op["kind"] == "parse":
        return "parse-of-%s" % ("atom" if n_atoms <= 1 else "two-atoms" if n_atoms == 2 else "tree")
    return "atoms" if all(" and " not in t and " or " not in t for t in texts) else "compound"


def _hist_of(st) -> list[dict]:
    if st["hist"] and "shape" in st["hist"][0]:          # MemoGroups
        return [{"kind": o["shape"], "x": group_text(o["g"]), "y": ""} for o in st["hist"]]
    return [{"kind": o["kind"], "x": atom_text(o["x"]), "y": atom_text(o["y"])} for o in st["hist"]]


def _b2_chunk(args):
    states, cold_map = args
    fails, n, drift = [], 0, 0
    for st in states:
        hist = _hist_of(st)
        n += 1
        try:
            drive_marker.clear_caches()
            for o in hist[:-1]:
                run_op(o)
            warm = observe(run_op(hist[-1]))
            c = cold_map[json.dumps(hist[-1], sort_keys=True)]
            cold = (c[0], c[1])
        except Exception as e:  # noqa: BLE001
            fails.append((f"C10:b2:raises-{type(e).__name__}", repr(e), {"history": hist}))
            continue
        if cold[0].startswith("!"):
            fails.append((f"C10:b2:cold-raises-{cold[0][1:]}", f"{hist[-1]} raises from empty caches", {"history": hist}))
            continue
        text_ok, meaning_ok, cls = compare(warm, cold)
        spec_text_ok, spec_meaning_ok = bool(st["last"]["text_ok"]), bool(st["last"]["meaning_ok"])
        ctx = {"kind": "history", "history": hist, "warm": warm[0], "cold": cold[0], "spec_text_ok": spec_text_ok}
        if not meaning_ok:
            fails.append(("C10:merge:meaning-depends-on-history", f"after {hist[:-1]} the probe {hist[-1]} gives {warm[0]!r}; from empty caches {cold[0]!r} (different truth tables)", ctx))
        elif not text_ok:
            if not spec_text_ok and cls == "first-caller-reversed":
                fails.append(("C10:text:first-caller-reversed", f"after {hist[:-1]} the probe {hist[-1]} prints {warm[0]!r}; from empty caches {cold[0]!r}", ctx))
            elif not spec_text_ok and cls == "first-caller-group-order" and hist[-1]["kind"] in ("and_or", "or_and"):
                fails.append(("C10:text:first-caller-group-order:compound", f"after {hist[:-1]} the probe {hist[-1]} prints {warm[0]!r}; from empty caches {cold[0]!r}", ctx))
            else:
                fails.append((f"C10:text:differs-{cls}", f"after {hist[:-1]} the probe {hist[-1]} prints {warm[0]!r}; from empty caches {cold[0]!r} (the model predicts {'a difference' if not spec_text_ok else 'no difference'})", ctx))
        elif not spec_text_ok:
            drift += 1
    drive_marker.clear_caches()
    return n, fails, drift


# --------------------------------------------------------------------------- B3: random histories
POOL_VARS = [["python_version", "python_full_version"], ["python_version", "python_full_version", "sys_platform"], ["sys_platform", "os_name"],
             ["python_version", "extra"], ["python_full_version", "os_name"]]


def _focused_texts(rng: random.Random) -> list[str]:
    """A small pool with many coincidences: python_version / python_full_version atoms on two adjacent
    minors, alone and in two-atom compounds (whose parse already merges them)."""
    minors = rng.sample([6, 7, 8, 9, 10], 2)
    atoms = []
    for m in minors:
        for op in ("<=", ">=", "<", ">", "==", "!="):
            atoms.append(f'python_version {op} "3.{m}"')
        for op in ("<", ">=", "<=", ">"):
            atoms.append(f'python_full_version {op} "3.{m}.{rng.choice([0, 1])}"')
            atoms.append(f'python_full_version {op} "3.{m}"')
    texts = rng.sample(atoms, 5)
    for _ in range(3):
        a, b = rng.sample(atoms, 2)
        texts.append(f"{a} {rng.choice(['and', 'or'])} {b}")
    return texts


def _collision_texts(rng: random.Random) -> list[str]:
    """Near-identical atoms - same operator and literal under two variables, same variable and literal under two
    operators, one literal in two spellings - plus partners to merge them with: a memo keyed on less than the
    whole operand (a dropped name, a normalised literal, a missing operator) confuses exactly these."""
    if rng.random() < 0.7:
        x = rng.choice([7, 8, 9, 10])
        names = rng.sample(["python_version", "python_full_version", "platform_release"], 2)
        ops = rng.choice([["in", "not in"], ["~=", ">="], ["==", "!="], ["<", "<="], [">", ">="], ["~=", "=="]])
        if ops[0] == "in":
            values = [f"3.{x}", rng.choice([f"3.{x}, 3.{x + 1}", f"3.{x}.0"])]
        else:
            values = [f"3.{x}", f"3.{x}.0"]
        partners = [f'python_version >= "3.{x - 1}"', f'python_full_version < "3.{x + 1}.2"', f'python_version != "3.{x + 1}"',
                    f'platform_release >= "3.{x - 2}"', 'sys_platform == "linux"']
    else:
        names = rng.sample(["sys_platform", "platform_system", "os_name", "platform_machine"], 2)
        ops = rng.choice([["==", "!="], ["in", "not in"], ["==", "in"], ["!=", "not in"]])
        values = rng.choice([["linux", "Linux"], ["linux", "linux2"], ["x86_64", "x86-64"], ["nt", "nt "]])
        partners = [f'{names[0]} != "darwin"', f'{names[1]} != "darwin"', f'{names[0]} in "linux darwin"', 'python_version >= "3.8"']
    texts = [f'{n} {o} "{v}"' for n in names for o in ops for v in values]
    texts += rng.sample(partners, 3)
    return texts


def gen_history(seed: int, length: int) -> list[dict]:
    rng = random.Random(seed)
    variables = rng.choice(POOL_VARS)
    if seed % 4 == 1:
        texts = _collision_texts(rng)
    elif seed % 2 == 0:
        texts = _focused_texts(rng)
    else:
        texts = [drive_marker.gen_marker(rng, variables, rng.choice([0, 0, 1])) for _ in range(rng.randint(3, 5))]
    # equal-but-differently-built operands: mirrored spelling, '3.10' vs '3.10.0'
    extra = []
    for t in texts:
        m = re.fullmatch(r'(\w+) (<=|>=|<|>|==|!=) "([^"]*)"', t)
        if m and "*" not in m.group(3):      # a wildcard on the left-hand side is not a well-defined atom
            refl = {"<": ">", "<=": ">=", ">": "<", ">=": "<=", "==": "==", "!=": "!="}
            extra.append(f'"{m.group(3)}" {refl[m.group(2)]} {m.group(1)}')
            if m.group(1) == "python_full_version" and m.group(3).count(".") == 1:
                extra.append(f'{m.group(1)} {m.group(2)} "{m.group(3)}.0"')
    texts += extra
    hist = []
    for _ in range(length):
        k = rng.choice(["and", "and", "or", "or", "parse"])
        hist.append({"kind": k, "x": rng.choice(texts), "y": rng.choice(texts)})
    return hist


def _timed_observe(op):
    val, exc = drive_marker.timed(lambda: observe(run_op(op)))
    return val, exc


SERVER_SCRIPT = r'''
import json, os, signal, sys
sys.path.insert(0, "/verif")
from harness import check_memo            # imports dep_logic; performs no operation: the state of a fresh interpreter
def _alarm(*a):
    raise TimeoutError()
for line in sys.stdin:
    op = json.loads(line)
    r, w = os.pipe()
    pid = os.fork()                       # the child starts from the pristine state, whatever was asked before
    if pid == 0:
        os.close(r)
        signal.signal(signal.SIGALRM, _alarm)
        signal.alarm(4)
        try:
            ops = op if isinstance(op, list) else [op]
            for prior in ops[:-1]:            # a history: the earlier operations run in the same pristine child
                try:
                    check_memo.run_op(prior)
                except TimeoutError:
                    raise
                except Exception:
                    pass
            t, tab = check_memo.observe(check_memo.run_op(ops[-1]))
            res = [t, tab, ""]
        except TimeoutError:
            res = ["", [], "Timeout"]
        except Exception as e:
            res = ["", [], type(e).__name__]
        os.write(w, json.dumps(res).encode())
        os._exit(0)
    os.close(w)
    buf = b""
    while True:
        chunk = os.read(r, 65536)
        if not chunk:
            break
        buf += chunk
    os.close(r)
    os.waitpid(pid, 0)
    sys.stdout.write((buf.decode() or json.dumps(["", [], "ChildDied"])) + "\n")
    sys.stdout.flush()
'''


class ColdServer:
    """`cold(op)`: the operation alone in a process forked from an interpreter that has imported the library and
    done nothing else - what the statement calls "first in a fresh interpreter" (module-level caches of any kind,
    not only the lru_caches clear_caches() knows, are empty there)."""

    def __init__(self):
        self.p = subprocess.Popen([sys.executable, "-c", SERVER_SCRIPT], stdin=subprocess.PIPE, stdout=subprocess.PIPE, text=True, env=dict(os.environ))

    def cold(self, op):
        try:
            self.p.stdin.write(json.dumps(op) + "\n")
            self.p.stdin.flush()
            line = self.p.stdout.readline()
            t, tab, exc = json.loads(line)
        except Exception as e:  # noqa: BLE001
            raise tla.MachineryError(f"cold server failed: {e!r}")
        if exc == "ChildDied":
            raise tla.MachineryError("cold server child died")
        return ((t, tab) if not exc else None), exc

    def close(self):
        try:
            self.p.stdin.close()
            self.p.wait(timeout=10)
        except Exception:  # noqa: BLE001
            self.p.kill()


def _b3_chunk(args):
    seeds, length, rerender = args
    fails, n, skipped = [], 0, 0
    server = ColdServer()
    for seed in seeds:
        hist = gen_history(seed, length)
        drive_marker.clear_caches()
        warm = []
        for i, op in enumerate(hist):
            val, exc = _timed_observe(op)
            warm.append((val, exc))
            if exc == "Timeout":
                break
            if rerender and val is not None and val[0] not in ("", "<empty>") and i + 1 < len(hist) and i % 3 == 0:
                hist[i + 1] = dict(hist[i + 1], x=val[0])       # a result re-rendered by the library becomes an operand
        for i, (w, wexc) in enumerate(warm):
            if wexc == "Timeout":
                skipped += 1
                break
            c, cexc = server.cold(hist[i])
            if cexc == "Timeout":
                skipped += 1
                continue
            n += 1
            ctx = {"kind": "random-history", "seed": seed, "length": length, "position": i, "history": hist[: i + 1]}
            if wexc or cexc:
                if wexc != cexc:
                    fails.append((f"C10:exception-depends-on-history:{wexc or 'none'}-vs-{cexc or 'none'}", f"position {i} of history seed {seed}", ctx))
                continue
            text_ok, meaning_ok, cls = compare(w, c)
            if not meaning_ok:
                fails.append(("C10:meaning-depends-on-history", f"history seed {seed} position {i}: {hist[i]} gives {w[0]!r} warm, {c[0]!r} cold", dict(ctx, warm=w[0], cold=c[0])))
            elif not text_ok:
                sig = "C10:text:" + (cls if cls != "other" else "differs-other")
                if "group-order" in cls:
                    sig += ":" + _operand_class(hist[i])
                fails.append((sig, f"history seed {seed} position {i}: {hist[i]} prints {w[0]!r} warm, {c[0]!r} cold", dict(ctx, warm=w[0], cold=c[0])))
    server.close()
    drive_marker.clear_caches()
    return n, fails, skipped


COLD_SCRIPT = r'''
import json, sys
sys.path.insert(0, "/verif")
from harness import check_memo
ops = json.load(sys.stdin)
out = []
for op in ops:
    try:
        t, tab = check_memo.observe(check_memo.run_op(op))
        out.append([t, tab])
    except Exception as e:
        out.append(["!" + type(e).__name__, []])
    from harness import drive_marker
    drive_marker.clear_caches()
print(json.dumps(out))
'''


ONE_SCRIPT = r'''
import json, sys
sys.path.insert(0, "/verif")
from harness import check_memo
op = json.loads(sys.argv[1])
try:
    t, tab = check_memo.observe(check_memo.run_op(op))
    print(json.dumps([t, tab]))
except Exception as e:
    print(json.dumps(["!" + type(e).__name__, []]))
'''


def _cold_one(op: dict):
    p = subprocess.run([sys.executable, "-c", ONE_SCRIPT, json.dumps(op)], capture_output=True, text=True, timeout=120)
    if p.returncode != 0:
        raise tla.MachineryError("cold interpreter failed: " + p.stderr[-400:])
    t, tab = json.loads(p.stdout.strip().splitlines()[-1])
    return t, tab


def cold_results(ops: list[dict]) -> dict:
    """Each distinct operation alone in a NEW interpreter: the definition of 'cold' in the statement."""
    from concurrent.futures import ThreadPoolExecutor
    uniq = {json.dumps(o, sort_keys=True): o for o in ops}
    with ThreadPoolExecutor(16) as ex:
        vals = list(ex.map(_cold_one, uniq.values()))
    return dict(zip(uniq.keys(), vals))


def collision_pairs(thorough: bool) -> list[list[dict]]:
    """B4, exhaustive: every two-operation history whose operations differ in exactly ONE coordinate of one atom - the
    variable name (python_version / python_full_version / platform_release) or the spelling of the literal ('3.8' vs
    '3.8.0', a one-entry vs a two-entry list) - over all nine operators, merged with a python_full_version /
    python_version partner by & and |.  A memo keyed on less than (name, operator, literal text) confuses exactly
    these; the random histories of B3 only sample them."""
    names = ["python_version", "python_full_version", "platform_release"]
    atoms = [(n, o, v) for n in names for o in ("~=", "==", "!=", ">=", "<=", "<", ">") for v in ("3.8", "3.8.0")]
    atoms += [(n, o, v) for n in names for o in ("in", "not in") for v in ("3.8, 3.9", "3.8")]
    partners = ['python_full_version >= "3.8.1"', 'python_full_version >= "3.9"'] + (['python_full_version < "3.9.2"', 'python_version >= "3.7"'] if thorough else [])
    out = []
    for a in atoms:
        for b in atoms:
            if a == b or a[1] != b[1] or sum(x != y for x, y in zip(a, b)) != 1:
                continue
            for partner in partners:
                for k in ("and", "or"):
                    ta, tb = (f'{n} {o} "{v}"' for n, o, v in (a, b))
                    out.append([{"kind": k, "x": ta, "y": partner}, {"kind": k, "x": tb, "y": partner}])
    return out


def _b4_chunk(hists):
    """warm = both operations, in order, in one child forked from a pristine interpreter; cold = the second alone."""
    fails, n, skipped = [], 0, 0
    server = ColdServer()
    cold_memo: dict[str, tuple] = {}
    for hist in hists:
        key = json.dumps(hist[-1], sort_keys=True)
        if key not in cold_memo:
            cold_memo[key] = server.cold(hist[-1])
        c, cexc = cold_memo[key]
        w, wexc = server.cold(hist)
        if "Timeout" in (cexc, wexc):
            skipped += 1
            continue
        n += 1
        ctx = {"kind": "collision-pair", "history": hist}
        if wexc or cexc:
            if wexc != cexc:
                fails.append((f"C10:exception-depends-on-history:{wexc or 'none'}-vs-{cexc or 'none'}", f"{hist[-1]} after {hist[0]}", ctx))
            continue
        text_ok, meaning_ok, cls = compare(tuple(w), tuple(c))
        if not meaning_ok:
            fails.append(("C10:meaning-depends-on-history", f"{hist[-1]} gives {w[0]!r} after {hist[0]}, {c[0]!r} alone in a fresh interpreter", dict(ctx, warm=w[0], cold=c[0])))
        elif not text_ok:
            sig = "C10:text:" + (cls if cls != "other" else "differs-other")
            if "group-order" in cls:
                sig += ":" + _operand_class(hist[-1])
            fails.append((sig, f"{hist[-1]} prints {w[0]!r} after {hist[0]}, {c[0]!r} alone in a fresh interpreter", dict(ctx, warm=w[0], cold=c[0])))
    server.close()
    return n, fails, skipped


def _fresh_interpreter_chunk(args):
    """Thorough: the cold run of each probed position happens in a NEW interpreter."""
    seeds, length = args
    fails, n = [], 0
    for seed in seeds:
        hist = gen_history(seed, length)
        drive_marker.clear_caches()
        warm = []
        for op in hist:
            val, exc = _timed_observe(op)
            if exc:
                break
            warm.append(val)
        ops = hist[: len(warm)]
        if not ops:
            continue
        env = dict(os.environ)
        p = subprocess.run([sys.executable, "-c", COLD_SCRIPT], input=json.dumps(ops), capture_output=True, text=True, env=env, timeout=300)
        if p.returncode != 0:
            raise tla.MachineryError("cold interpreter failed: " + p.stderr[-500:])
        cold = json.loads(p.stdout.strip().splitlines()[-1])
        for i, (w, c) in enumerate(zip(warm, cold)):
            n += 1
            if c[0].startswith("!"):
                continue
            text_ok, meaning_ok, cls = compare(w, (c[0], c[1]))
            ctx = {"kind": "random-history", "seed": seed, "length": length, "position": i, "history": ops[: i + 1], "fresh_interpreter": True}
            if not meaning_ok:
                fails.append(("C10:meaning-depends-on-history", f"history seed {seed} position {i}: {w[0]!r} warm vs {c[0]!r} in a fresh interpreter", ctx))
            elif not text_ok:
                fails.append(("C10:text:" + (cls if cls != "other" else "differs-other"),
                              f"history seed {seed} position {i}: {w[0]!r} warm vs {c[0]!r} in a fresh interpreter", ctx))
    drive_marker.clear_caches()
    return n, fails


def _pmap(fn, jobs):
    with mp.Pool(16) as pool:
        return pool.map(fn, jobs)


def _split(xs, k=48):
    size = max(1, (len(xs) + k - 1) // k)
    return [xs[i:i + size] for i in range(0, len(xs), size)]


def run(pid: str, tier: str, replay: str | None = None) -> int:
    rep = Report(pid, tier, "model_checking")
    thorough = tier == "thorough"
    if replay and json.load(open(replay))["vector"].get("kind") == "random-history" and not json.load(open(replay))["vector"].get("fresh_interpreter"):
        vec = json.load(open(replay))["vector"]
        n, fails, _ = _b3_chunk(([vec["seed"]], vec["length"], True))
        for f in fails:
            rep.violation(*f)
        rep.set(states=1, transitions=1, traces_validated_against_impl=n)
        rep.sample({"replayed": replay})
        return rep.finish()
    if replay and json.load(open(replay))["vector"].get("kind") == "collision-pair":
        n, fails, _ = _b4_chunk([json.load(open(replay))["vector"]["history"]])
        for f in fails:
            rep.violation(*f)
        rep.set(states=1, transitions=1, traces_validated_against_impl=n)
        rep.sample({"replayed": replay})
        return rep.finish()
    tmp = tempfile.mkdtemp(prefix="verif_memo_")
    try:
        cfgp = os.path.join(tmp, "c.cfg")
        maxhist = 3
        open(cfgp, "w").write(f"SPECIFICATION Spec\nCONSTANTS\n Bounds = {{7, 8}}\n MaxHist = {maxhist}\nINVARIANT MeaningTransparent\nINVARIANT FirstCallerReversed\nCHECK_DEADLOCK FALSE\n")
        d = os.path.join(tmp, "d")
        r = tla.run_tlc("MemoCache.tla", cfgp, workers=16, args=["-dump", d])
        if r.violated:
            rep.violation(f"C10:spec:{r.violated}", f"TLC: invariant {r.violated} violated in MemoCache", {"tlc_tail": r.out[-1500:]})
        else:
            tla.require_ok(r, "TLC MemoCache")
        rep.set(states=r.distinct, transitions=r.generated)
        states = [s for s in tla.load_dump(d + ".dump") if s["hist"]]
    finally:
        shutil.rmtree(tmp, ignore_errors=True)
    total = 0
    drift = 0
    # second model: ==-groups (MemoGroups.tla), same binding
    tmp = tempfile.mkdtemp(prefix="verif_memog_")
    try:
        cfgp = os.path.join(tmp, "c.cfg")
        open(cfgp, "w").write('SPECIFICATION Spec\nCONSTANTS\n Letters = {"a", "b", "c"}\n MaxHist = 3\nINVARIANT MeaningTransparent\nINVARIANT FirstCallerGroupOrder\nCHECK_DEADLOCK FALSE\n')
        d = os.path.join(tmp, "d")
        r2 = tla.run_tlc("MemoGroups.tla", cfgp, workers=16, args=["-dump", d])
        if r2.violated:
            rep.violation(f"C10:spec:MemoGroups:{r2.violated}", f"TLC: invariant {r2.violated} violated in MemoGroups", {"tlc_tail": r2.out[-1500:]})
            gstates = []
        else:
            tla.require_ok(r2, "TLC MemoGroups")
            gstates = [s for s in tla.load_dump(d + ".dump") if s["hist"]]
        rep.add("states", r2.distinct)
        rep.add("transitions", r2.generated)
        rep.count("b2_group_histories", len(gstates))
    finally:
        shutil.rmtree(tmp, ignore_errors=True)
    states = states + gstates
    probes = [_hist_of(st)[-1] for st in states]
    cold_map = cold_results(probes)
    rep.count("b2_distinct_probes_cold_in_fresh_interpreter", len(cold_map))
    for n, fails, dr in _pmap(_b2_chunk, [(ch, cold_map) for ch in _split(states)]):
        total += n
        drift += dr
        for f in fails:
            rep.violation(*f)
    rep.count("b2_histories", len(states))
    rep.count("algorithm_drift", drift)
    rep.count("model_predicts_text_difference", sum(1 for s in states if not s["last"]["text_ok"]))
    rep.sample({"binding": "B2", "history": _hist_of(states[-1]), "model": states[-1]["last"]})
    # ---- B3: random histories, every position probed
    nh = 6000 if thorough else 800
    length = 30 if thorough else 14
    seeds = [rep.seed * 100003 + i for i in range(nh)]
    skipped = 0
    for n, fails, sk in _pmap(_b3_chunk, [(ch, length, True) for ch in _split(seeds)]):
        total += n
        skipped += sk
        for f in fails:
            rep.violation(*f)
    rep.count("b3_random_histories", nh)
    rep.count("skipped_timeout", skipped)
    rep.sample({"binding": "B3", "history": gen_history(seeds[0], 6)})
    # ---- B4: the exhaustive family of one-coordinate collision pairs, warm and cold both from a pristine interpreter
    pairs = collision_pairs(thorough)
    sk4 = 0
    for n, fails, sk in _pmap(_b4_chunk, _split(pairs, 32)):
        total += n
        sk4 += sk
        for f in fails:
            rep.violation(*f)
    rep.count("b4_collision_pair_histories", len(pairs))
    rep.count("skipped_timeout", sk4)
    nfresh = 800 if thorough else 120
    for n, fails in _pmap(_fresh_interpreter_chunk, [(ch, 12) for ch in _split(seeds[:nfresh], 16)]):
        total += n
        for f in fails:
            rep.violation(*f)
    rep.count("fresh_interpreter_histories", nfresh)
    rep.add("traces_validated_against_impl", total)
    rep.set(rule="B2: every history of <= 3 operations of the MemoCache model (probe = last operation) run warm and cold on the real library; "
                 "B3: random histories (operands incl. mirrored spellings, '3.10' vs '3.10.0', library-rendered results), every position probed against a cold run",
            exhaustive=True)
    rep.assumptions += ["cold = all four lru_caches emptied and operands parsed afresh (thorough: additionally a fresh interpreter)",
                        "PYTHONHASHSEED is pinned (0) for warm and cold runs alike: set iteration order is not history"]
    return rep.finish()
