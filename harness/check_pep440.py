"""C04 (membership agrees with PEP 440), C06 (text round trip), C17 (parser acceptance).

MC  specs/Pep440.tla: Clauses (translation of every clause vs PEP 440 semantics on structured versions),
    Render (every range / hole over the version universe renders to something that parses back).
B1  every dumped clause is rendered in several SPELLINGS and evaluated three ways (specification,
    packaging, dep-logic `in` + contains()); every dumped range/hole is built, str()-ed and re-parsed.
B3  sessions (SpecSessionTrace clauses in_table / contains_table / roundtrip / raises).
"""
from __future__ import annotations

import multiprocessing as mp
import os
import random
import shutil
import tempfile

from . import check_interval, spec_iface, tla
from .engine import Report

UNIVERSE_QUICK = {"RelVals": "{0, 1, 2}", "MaxRelLen": 2, "Epochs": "{0, 1}", "Pres": "{0, 2}", "Posts": "{0, 1}", "Devs": "{0, 1}",
                  "CandVals": "{0, 1, 2, 3}", "MaxCandLen": 3}
UNIVERSE_THOROUGH = {"RelVals": "{0, 1, 2, 9}", "MaxRelLen": 3, "Epochs": "{0, 1}", "Pres": "{0, 1, 2}", "Posts": "{0, 1}", "Devs": "{0, 1}",
                     "CandVals": "{0, 1, 2, 3, 9, 10}", "MaxCandLen": 3}
UNIVERSE_RENDER_THOROUGH = {"RelVals": "{0, 1, 2}", "MaxRelLen": 3, "Epochs": "{0, 1}", "Pres": "{0, 2}", "Posts": "{0, 1}", "Devs": "{0, 1}",
                            "CandVals": "{0, 1}", "MaxCandLen": 1}


def _tlc(rep: Report, spec: str, consts: dict, invs: list[str], report_violation=True):
    tmp = tempfile.mkdtemp(prefix="verif_p440_")
    try:
        cfgp = os.path.join(tmp, "c.cfg")
        open(cfgp, "w").write(f"SPECIFICATION {spec}\nCONSTANTS\n" + "".join(f" {k} = {v}\n" for k, v in consts.items()) +
                              "".join(f"INVARIANT {i}\n" for i in invs) + "CHECK_DEADLOCK FALSE\n")
        d = os.path.join(tmp, "d")
        r = tla.run_tlc("Pep440.tla", cfgp, workers=16, args=["-dump", d])
        if r.violated and not report_violation:
            pass
        elif r.violated:
            rep.violation(f"{rep.pid}:spec:{spec}:{r.violated}", f"TLC: invariant {r.violated} violated in Pep440/{spec}", {"tlc_tail": r.out[-1500:]})
        else:
            tla.require_ok(r, f"TLC Pep440 {spec}")
        rep.add("states", r.distinct)
        rep.add("transitions", r.generated)
        rep.cov.setdefault("tlc_runs", []).append({"spec": spec, "constants": consts, "invariants": invs, "distinct": r.distinct,
                                                   "violated": r.violated, "wall_s": round(r.wall, 1)})
        return r, tla.load_dump(d + ".dump")
    finally:
        shutil.rmtree(tmp, ignore_errors=True)


# --------------------------------------------------------------------------- spelling
PRE = {1: "a1", 2: "rc1"}


def vtext(v: dict, sp: str = "canon") -> str | None:
    """Render a structured version under a spelling; None when the spelling does not apply."""
    rel = [str(x) for x in v["rel"]]
    if sp == "zero-pad":
        rel = ["0" + x for x in rel]
    s = (f"{v['ep']}!" if v["ep"] else "") + ".".join(rel)
    pre, post, dev = v["pre"], v["post"], v["dev"]
    applies = sp in ("canon", "zero-pad", "upper", "v-prefix")
    if pre:
        if sp == "alt-pre":
            s += {1: "alpha1", 2: "c1"}[pre]
            applies = True
        elif sp == "dot-pre":
            s += {1: ".beta1", 2: ".pre1"}[pre] if False else {1: ".a1", 2: ".pre1"}[pre]
            applies = True
        elif sp == "preview":
            s += {1: ".alpha1", 2: ".preview1"}[pre]
            applies = True
        else:
            s += PRE[pre]
    if post:
        if sp == "post-dash":
            s += "-1"
            applies = True
        elif sp == "post-rev":
            s += ".rev1"
            applies = True
        elif sp == "post-r":
            s += ".r1"
            applies = True
        elif sp == "post-attached":
            s += "post1"
            applies = True
        elif sp == "underscore":
            s += "_post1"
            applies = True
        else:
            s += ".post1"
    if dev:
        if sp == "dev-attached":
            s += "dev1"
            applies = True
        elif sp == "underscore":
            s += "_dev1"
            applies = True
        else:
            s += ".dev1"
    if sp == "upper":
        if s.upper() == s:
            return None
        s = s.upper()
    if sp == "v-prefix":
        s = "v" + s
    return s if applies else None


SPELLINGS = ["canon", "alt-pre", "dot-pre", "preview", "post-dash", "post-rev", "post-r", "post-attached", "underscore", "dev-attached", "upper", "v-prefix", "zero-pad"]


def clause_text(cl: dict, sp: str) -> str | None:
    v = vtext(cl["v"], sp)
    if v is None:
        return None
    op = cl["op"]
    if op in ("==*", "!=*"):
        return f"{op[:2]}{v}.*"
    return f"{op}{v}"


def _vclass(v: dict) -> str:
    parts = []
    if v["ep"]:
        parts.append("epoch")
    if v["pre"]:
        parts.append("pre")
    if v["post"]:
        parts.append("post")
    if v["dev"]:
        parts.append("dev")
    return "+".join(parts) or "final"


# --------------------------------------------------------------------------- clause worker (C04 / C17)
def _clause_chunk(args):
    states, cands = args
    from packaging.specifiers import InvalidSpecifier as PkgInvalid
    from packaging.specifiers import SpecifierSet
    from dep_logic.specifiers import InvalidSpecifier, parse_version_specifier
    fails = []     # (pid, sig, detail, vec)
    n = 0
    spec_errors = []
    for st in states:
        cl = st["cl"]
        want = [bool(x) for x in st["obs"]["want"]]
        for sp in SPELLINGS:
            text = clause_text(cl, sp)
            if text is None:
                continue
            try:
                ss = SpecifierSet(text)
            except PkgInvalid:
                continue        # this spelling is not valid PEP 440 for this clause
            n += 1
            ref = [ss.contains(c, prereleases=True) for c in cands]
            if ref != want:
                k = next(i for i in range(len(cands)) if ref[i] != want[i])
                spec_errors.append(f"{text}: packaging says {ref[k]} for {cands[k]}, specification says {want[k]}")
                continue
            ctx = {"clause": cl, "text": text, "spelling": sp}
            site = f"parse({cl['op']},{_vclass(cl['v'])},{sp})"
            try:
                obj = parse_version_specifier(text)
            except InvalidSpecifier as e:
                fails.append(("C17", f"C17:{site}:rejects-valid", f"{text!r} is a valid PEP 440 specifier but InvalidSpecifier: {e}", ctx))
                continue
            except Exception as e:  # noqa: BLE001
                fails.append(("C17", f"C17:{site}:raises-{type(e).__name__}", f"{text!r}: {e!r}", ctx))
                continue
            try:
                got = [bool(c in obj) for c in cands]
                got2 = [bool(obj.contains(c)) for c in cands]
                # the parsed object answers `in` through its remembered source text; results of the
                # algebra do not: pass the value through operations that keep its meaning on all
                # candidates (every candidate is >= 0.dev0) and ask again
                floor = parse_version_specifier(">=0.dev0")
                below = parse_version_specifier("<0.dev0")
                for variant in (obj & floor, floor & obj, obj | below, ~~obj):
                    g = [bool(c in variant) for c in cands]
                    if g != want:
                        got = g
                        break
            except Exception as e:  # noqa: BLE001
                fails.append(("C04", f"C04:{site}:in-raises-{type(e).__name__}", f"{text!r}: {e!r}", ctx))
                continue
            if got != want or got2 != want:
                bad = [cands[i] for i in range(len(cands)) if got[i] != want[i] or got2[i] != want[i]][:4]
                fails.append(("C04", f"C04:{site}:membership", f"{text!r} -> {check_interval._s(obj)}: membership differs from PEP 440 on {bad}", dict(ctx, wrong_on=bad)))
    return n, fails, spec_errors


# --------------------------------------------------------------------------- render worker (C06)
def _render_chunk(states):
    from packaging.version import Version
    from dep_logic.specifiers import RangeSpecifier, UnionSpecifier, parse_version_specifier
    fails, n, drift = [], 0, 0
    for st in states:
        lo, hi = Version(vtext(st["lo"])), Version(vtext(st["hi"]))
        f1, f2 = st["fl"]
        if st["phase"] == "range_done":
            obj = RangeSpecifier(min=lo, max=hi, include_min=f1, include_max=f2)
            shape = "range"
        else:
            obj = UnionSpecifier((RangeSpecifier(max=lo, include_max=f1), RangeSpecifier(min=hi, include_min=f2)))
            shape = "hole"
        n += 1
        spec_ok = bool(st["obs"]["want"][0])
        kind = st["obs"]["algo"][0]
        cls = f"{_vclass(st['lo'])}|{_vclass(st['hi'])}"
        ctx = {"shape": shape, "lo": vtext(st["lo"]), "hi": vtext(st["hi"]), "flags": [f1, f2], "spec_rendering": kind, "spec_ok": spec_ok}
        try:
            text = str(obj)
        except Exception as e:  # noqa: BLE001
            fails.append((f"C06:str({shape}):{cls}:raises-{type(e).__name__}", f"str() of {shape} {ctx['lo']}..{ctx['hi']} {f1, f2} raised {e!r}", ctx))
            continue
        try:
            back = parse_version_specifier(text)
        except Exception as e:  # noqa: BLE001
            fails.append((f"C06:reparse({shape}):{cls}:raises-{type(e).__name__}", f"{text!r} (rendering of {ctx['lo']}..{ctx['hi']}) does not parse: {e!r}", dict(ctx, text=text)))
            continue
        code_ok = bool(back == obj) and bool(obj == back)
        if not code_ok:
            form = "~=" if text.startswith("~=") else "!=*" if text.startswith("!=") and text.endswith(".*") else "!=" if text.startswith("!=") else "==" if text.startswith("==") else "plain"
            sig = f"C06:str({shape}):{form}:{cls}:not-equal-after-reparse"
            if shape == "range" and form == "~=" and st["hi"]["post"] and not st["hi"]["pre"] and not st["hi"]["dev"]:
                sig = "C06:str(range):~=:upper-bound-post-release"
            fails.append((sig,
                          f"{shape} {ctx['lo']}..{ctx['hi']} {f1, f2} renders as {text!r} which parses to {check_interval._s(back)}", dict(ctx, text=text)))
        elif not spec_ok:
            drift += 1
    return n, fails, drift


def _pmap(fn, jobs):
    with mp.Pool(16) as pool:
        return pool.map(fn, jobs)


def _split(xs, k=64):
    size = max(1, (len(xs) + k - 1) // k)
    return [xs[i:i + size] for i in range(0, len(xs), size)]


def _cands_from(out: str) -> list[str]:
    vals = tla.printed_values(out, "CANDS")
    if not vals:
        raise tla.MachineryError("TLC output lacks CANDS")
    return [".".join(map(str, rel)) for rel in vals[0][1]]


# --------------------------------------------------------------------------- C17 text generators
def gen_valid_sets(rng: random.Random, clause_states: list[dict], n: int) -> list[str]:
    out = ["<empty>", "", " ", ">=1.0 , <2.0", ">=1.0||<0.5", "~=1.0 || ==3.*", "<empty>||>=1"]
    pool = []
    for st in clause_states:
        for sp in SPELLINGS:
            t = clause_text(st["cl"], sp)
            if t is not None:
                pool.append(t)
    for _ in range(n):
        k = rng.choice([1, 1, 2, 2, 3])
        alt = rng.choice([1, 1, 1, 2, 3])
        out.append("||".join(rng.choice([",", ", ", " ,"]).join(rng.choice(pool) for _ in range(k)) for _ in range(alt)))
    return out


MUTATIONS = ["DropOperator", "OneSegmentCompatible", "WildcardWithOrdering", "WildcardAfterDev", "EmptyEpoch", "DoubleComma", "StrayChar",
             "LocalWithOrdering", "InnerBlank", "DoubleOperator", "WildcardCompatible", "TrailingDot", "DoubleBang", "EmptyAlternative",
             "FormatChars", "UrlEncoded", "BraceChars"]


def mutate(rng: random.Random, text: str, m: str) -> str:
    import re
    clauses = re.split(r"(,|\|\|)", text)
    idx = [i for i in range(0, len(clauses), 2) if clauses[i].strip()]
    if not idx:
        return text + "x"
    i = rng.choice(idx)
    c = clauses[i].strip()
    mo = re.match(r"(~=|==|!=|<=|>=|<|>)\s*(.*)", c)
    if not mo:
        return text + "$"
    op, v = mo.group(1), mo.group(2)
    base = v.replace(".*", "")
    if m == "DropOperator":
        c = v
    elif m == "OneSegmentCompatible":
        c = "~=" + base.split(".")[0].split("!")[-1]
    elif m == "WildcardWithOrdering":
        c = rng.choice([">=", "<", ">", "<=", "~="]) + base.split("a")[0].split("rc")[0] + ".*"
    elif m == "WildcardAfterDev":
        c = "==" + base + ".dev1.*"
    elif m == "EmptyEpoch":
        c = op + "!" + v
    elif m == "DoubleComma":
        c = c + ",,"
    elif m == "StrayChar":
        c = op + v + rng.choice(["$", "#", "@", "/", "?"])
    elif m == "LocalWithOrdering":
        c = rng.choice([">=", "<", ">", "<=", "~="]) + base + "+local"
    elif m == "InnerBlank":
        j = rng.randrange(1, max(2, len(c)))
        c = c[:j] + " " + c[j:]
    elif m == "DoubleOperator":
        c = op + op + v
    elif m == "WildcardCompatible":
        c = "~=" + base + ".*"
    elif m == "TrailingDot":
        c = op + base + "."
    elif m == "DoubleBang":
        c = op + "1!!" + base.split("!")[-1]
    elif m == "EmptyAlternative":
        c = c + "||"
    elif m == "FormatChars":          # text that is dangerous inside %-formatting / str.format of an error message
        c = rng.choice([op + v + "%", op + "%s", op + "%(version)s", op + v + "%d", "%" + c])
    elif m == "UrlEncoded":
        c = c.replace(">", "%3E").replace("<", "%3C").replace("=", "%3D") if rng.random() < 0.7 else op + v.replace(".", "%2E")
    elif m == "BraceChars":
        c = rng.choice([op + "{0}", op + v + "{}", op + "{version}", "{" + c + "}"])
    clauses[i] = c
    return "".join(clauses)


def _c17_chunk(texts):
    from packaging.specifiers import InvalidSpecifier as PkgInvalid
    from packaging.specifiers import SpecifierSet
    from dep_logic.specifiers import InvalidSpecifier, from_specifierset, parse_version_specifier
    fails, n, nvalid, ninvalid = [], 0, 0, 0
    for (text, origin) in texts:
        n += 1
        # reference verdict: every ||-alternative must be a valid SpecifierSet (or <empty>)
        valid = True
        if text != "<empty>":
            for alt in text.split("||"):
                if alt == "<empty>":
                    continue
                try:
                    SpecifierSet(alt)
                except PkgInvalid:
                    valid = False
                    break
        if "+" in text or "===" in text:
            continue        # local versions / arbitrary equality are outside the claim
        cls = _text_class(text)
        try:
            obj = parse_version_specifier(text)
            err = None
        except InvalidSpecifier:
            obj, err = None, "InvalidSpecifier"
        except Exception as e:  # noqa: BLE001
            obj, err = None, type(e).__name__
        ctx = {"text": text, "origin": origin, "reference_valid": valid}
        if valid:
            nvalid += 1
            if err is not None:
                fails.append((f"C17:parse({cls}):{'rejects-valid' if err == 'InvalidSpecifier' else 'raises-' + err}",
                              f"{text!r} is accepted by packaging but parse_version_specifier raised {err}", ctx))
            elif "||" not in text and text != "<empty>":
                try:
                    from_specifierset(SpecifierSet(text))
                except Exception as e:  # noqa: BLE001
                    fails.append((f"C17:from_specifierset({cls}):raises-{type(e).__name__}", f"{text!r}: {e!r}", ctx))
        else:
            ninvalid += 1
            if err != "InvalidSpecifier":
                fails.append((f"C17:parse-invalid({origin}):{'accepts' if err is None else 'raises-' + err}",
                              f"{text!r} is rejected by packaging but parse_version_specifier {'returned ' + check_interval._s(obj) if err is None else 'raised ' + err}", ctx))
    return n, fails, nvalid, ninvalid


def _text_class(text: str) -> str:
    import re
    ops = sorted(set(re.findall(r"(~=|==|!=|<=|>=|<|>)", text)))
    tags = []
    if ".*" in text:
        tags.append("wildcard")
    if re.search(r"\d+!", text):
        tags.append("epoch")
    low = text.lower()
    for t in ("post", "rev", ".r1", "-1", "dev", "rc", "c1", "pre", "alpha", "beta", "a1", "b1"):
        if t in low:
            tags.append("suffix")
            break
    if text != low:
        tags.append("upper")
    if re.search(r"(^|[=<>~!,|\s])v\d", text):
        tags.append("v")
    return ",".join(ops[:3]) + (":" + "+".join(tags) if tags else "")


# --------------------------------------------------------------------------- `===` leaves (C04, last sentence)
def _arbitrary_chunk(seeds):
    """Expressions with one `===V` leaf: the result either satisfies the Boolean equation over
    packaging's leaf verdicts or the operation raises ValueError - never a wrong set."""
    from packaging.specifiers import SpecifierSet
    from dep_logic.specifiers import parse_version_specifier
    fails, n, raised = [], 0, 0
    targets = ["1.0", "1.0.0", "2", "1.5", "3.0"]
    leaves = [">=1.0", "<2", "==1.0", "!=1.0", "~=1.0", "==1.*", "!=1.*", ">=1.0,<3", ">1.5", "<=1.0", "", "<empty>", ">=0"]
    cands = ["0.5", "1", "1.0", "1.0.0", "1.5", "2", "2.0", "3.0", "3.0.0", "4"]
    for seed in seeds:
        rng = random.Random(seed)
        t = rng.choice(targets)
        arb_text = f"==={t}"
        others = [rng.choice(leaves) for _ in range(rng.choice([1, 2]))]
        ops = [rng.choice(["and", "or"]) for _ in others]
        arb_first = rng.random() < 0.5

        def ref(text, c):
            if text == "<empty>":
                return False
            return SpecifierSet(text).contains(c, prereleases=True)
        n += 1
        expr = arb_text
        try:
            acc = parse_version_specifier(arb_text)
            want = [ref(arb_text, c) for c in cands]
            for o, op in zip(others, ops):
                rhs = parse_version_specifier(o)
                w2 = [ref(o, c) for c in cands]
                if arb_first:
                    acc = (acc & rhs) if op == "and" else (acc | rhs)
                    expr = f"({expr} {op} {o!r})"
                else:
                    acc = (rhs & acc) if op == "and" else (rhs | acc)
                    expr = f"({o!r} {op} {expr})"
                want = [(a and b) if op == "and" else (a or b) for a, b in zip(want, w2)]
            got = [bool(c in acc) for c in cands]
        except ValueError:
            raised += 1
            continue
        except Exception as e:  # noqa: BLE001
            fails.append((f"C04:arbitrary:raises-{type(e).__name__}", f"{expr}: {e!r}", {"kind": "arbitrary", "seed": seed, "expr": expr}))
            continue
        if got != want:
            bad = [c for c, g, w in zip(cands, got, want) if g != w]
            fails.append((f"C04:arbitrary({'+'.join(ops)}):wrong-set", f"{expr} -> {check_interval._s(acc)}: membership differs on {bad}",
                          {"kind": "arbitrary", "seed": seed, "expr": expr, "wrong_on": bad}))
    return n, fails, raised


# --------------------------------------------------------------------------- ArbitraryEq: MC + B1 (C04, === leaves)
# final releases only, as C04 states (PEP 440 treats pre-/post-releases specially under < and >; DESIGN 13)
ARB_GRIDS = [(["1.0", "2.0", "3.0"], ["1.0.0", "2.0.0", "3.0.0"]), (["1", "1.5", "2!0"], ["1.0", "1.5.0", "2!0.0"]), (["0.9.9", "1.10", "1.10.1"], ["0.9.9.0", "1.10.0", "1.10.1.0"])]


def _arb_chunk(args):
    states, n = args
    from dep_logic.specifiers import parse_version_specifier
    fails, cnt, raised_where_spec_answers = [], 0, 0
    for st in states:
        for pts, alt in ARB_GRIDS:
            def text(t):
                return "abc" if t["pt"] == 0 else (pts if t["sp"] == 1 else alt)[t["pt"] - 1]

            def build(x):
                return parse_version_specifier("===" + text(x["t"])) if x["k"] == "arb" else spec_iface.build(x, pts)

            def den(x):     # the candidates [pt, sp] a value admits (meaning layer of ArbitraryEq)
                if x["k"] == "arb":
                    return {(x["t"]["pt"], x["t"]["sp"])} if x["t"]["pt"] else set()
                d = spec_iface.den(x, n)
                return {(p, sp) for p in range(1, n + 1) for sp in (1, 2) if 2 * p - 1 in d}
            a, b = st["a"], st["b"]
            want = (den(a) & den(b)) if st["op"] == "and" else (den(a) | den(b)) if st["op"] == "or" else None
            for order in ((0, 1), (1, 0)) if st["op"] != "not" else ((0, 1),):
                cnt += 1
                try:
                    x, y = build(a), build(b)
                    ops = (x, y) if order == (0, 1) else (y, x)
                    expr = f"{ops[0]} {st['op']} {ops[1]}" if st["op"] != "not" else f"~{x}"
                    res = (ops[0] & ops[1]) if st["op"] == "and" else (ops[0] | ops[1]) if st["op"] == "or" else ~x
                except ValueError:
                    if st["res"]["k"] != "raise":
                        raised_where_spec_answers += 1          # allowed by the statement; counted
                    continue
                except Exception as e:  # noqa: BLE001
                    fails.append((f"C04:arbitrary-b1:{st['op']}({a['k']},{b['k']}):raises-{type(e).__name__}", repr(e), {"a": a, "b": b, "op": st["op"], "grid": pts}))
                    continue
                if st["op"] == "not":
                    fails.append(("C04:arbitrary-b1:not:returns", f"{expr} returned {check_interval._s(res)}; ~(===V) has no representation and must raise ValueError", {"a": a, "grid": pts}))
                    continue
                ctx = {"a": a, "b": b, "op": st["op"], "order": order, "grid": pts, "expr": expr, "spec_result": st["res"]["k"]}
                try:
                    got_in = {(p_, sp) for p_ in range(1, n + 1) for sp in (1, 2) if ((pts if sp == 1 else alt)[p_ - 1] in res)}
                    got_ct = {(p_, sp) for p_ in range(1, n + 1) for sp in (1, 2) if res.contains((pts if sp == 1 else alt)[p_ - 1])} if hasattr(res, "contains") else got_in
                except Exception as e:  # noqa: BLE001
                    fails.append((f"C04:arbitrary-b1:{st['op']}:in-raises-{type(e).__name__}", f"{expr}: {e!r}", ctx))
                    continue
                if got_in != want or got_ct != want:
                    bad = sorted((got_in ^ want) | (got_ct ^ want))[:4]
                    fails.append((f"C04:arbitrary-b1:{st['op']}({a['k']},{_kind(b)}):wrong-set", f"{expr} -> {check_interval._s(res)}: membership differs on {[(pts if sp == 1 else alt)[p_ - 1] for p_, sp in bad]}", ctx))
    return cnt, fails, raised_where_spec_answers


def _kind(x):
    return x["k"] if x["k"] != "union" else f"union{len(x['rs'])}"


def arbitrary_mc(rep: Report, thorough: bool) -> None:
    import shutil
    import tempfile
    n = 3
    tmp = tempfile.mkdtemp(prefix="verif_arb_")
    try:
        cfgp = os.path.join(tmp, "c.cfg")
        open(cfgp, "w").write(f"SPECIFICATION Spec\nCONSTANTS\n N = {n}\nINVARIANT ArbExact\nINVARIANT ArbTotalWhereSimple\nCHECK_DEADLOCK FALSE\n")
        d = os.path.join(tmp, "d")
        r = tla.run_tlc("ArbitraryEq.tla", cfgp, workers=8, args=["-dump", d])
        if r.violated:
            rep.violation(f"C04:spec:ArbitraryEq:{r.violated}", f"TLC: invariant {r.violated} violated by the transcribed === algebra", {"tlc_tail": r.out[-1500:]})
            return
        tla.require_ok(r, "TLC ArbitraryEq")
        rep.add("states", r.distinct)
        rep.add("transitions", r.generated)
        rep.cov.setdefault("tlc_runs", []).append({"module": "ArbitraryEq", "constants": {"N": n}, "invariants": ["ArbExact", "ArbTotalWhereSimple"], "distinct": r.distinct, "wall_s": round(r.wall, 1)})
        states = [s for s in tla.load_dump(d + ".dump") if s["op"] != "init"]
    finally:
        shutil.rmtree(tmp, ignore_errors=True)
    size = max(1, len(states) // 32)
    total = drift = 0
    with mp.Pool(16) as pool:
        for cnt, fails, rs in pool.map(_arb_chunk, [(states[i:i + size], n) for i in range(0, len(states), size)]):
            total += cnt
            drift += rs
            for f in fails:
                rep.violation(*f)
    rep.add("traces_validated_against_impl", total)
    rep.count("arbitrary_b1_vectors", total)
    rep.count("arbitrary_b1_valueerror_where_the_specification_answers", drift)


# --------------------------------------------------------------------------- entry
def run(pid: str, tier: str, replay: str | None = None) -> int:
    thorough = tier == "thorough"
    rep = Report(pid, tier, "exploration" if pid == "C17" else "model_checking")
    rng = random.Random(rep.seed)
    total = 0
    if pid in ("C04", "C17"):
        r, states = _tlc(rep, "ClausesSpec", UNIVERSE_THOROUGH if thorough else UNIVERSE_QUICK, ["ClauseExact"])
        cands = _cands_from(r.out)
        vecs = [s for s in states if s["phase"] == "evaluated"]
        rep.count("clauses", len(vecs))
        rep.count("candidates", len(cands))
        if pid == "C04":
            spec_errors = []
            for n, fails, se in _pmap(_clause_chunk, [(ch, cands) for ch in _split(vecs)]):
                total += n
                spec_errors += se
                for (p, sig, detail, vec) in fails:
                    if p == pid:
                        rep.violation(sig, detail, vec)
            if spec_errors:
                raise tla.MachineryError("specification disagrees with packaging (reference of C04): " + "; ".join(spec_errors[:5]))
            rep.sample({"clause": vecs[len(vecs) // 2]["cl"], "spellings": [clause_text(vecs[len(vecs) // 2]["cl"], sp) for sp in SPELLINGS if clause_text(vecs[len(vecs) // 2]["cl"], sp)]})
        else:
            # also the single-clause vectors themselves (every spelling)
            texts = []
            for st in vecs:
                for sp in SPELLINGS:
                    t = clause_text(st["cl"], sp)
                    if t is not None:
                        texts.append((t, "clause"))
            valid = gen_valid_sets(rng, vecs, 30000 if thorough else 4000)
            texts += [(t, "set") for t in valid]
            for t in valid[: (20000 if thorough else 3000)]:
                for m in rng.sample(MUTATIONS, 3):
                    texts.append((mutate(rng, t, m), m))
            nv = ni = 0
            for n, fails, a, b in _pmap(_c17_chunk, _split(texts)):
                total += n
                nv += a
                ni += b
                for f in fails:
                    rep.violation(*f)
            rep.count("valid_strings", nv)
            rep.count("invalid_strings", ni)
            rep.set(evaluations=total, distinct_nontrivial=len(set(t for t, _ in texts)),
                    rule="every clause of the Pep440 universe in every applicable spelling, random comma/||-joined sets of them, "
                         "and 17 named mutations; the reference verdict is packaging.SpecifierSet per ||-alternative")
            rep.sample({"valid": valid[10:14], "mutated": [t for t, o in texts if o in MUTATIONS][:4]})
    if pid == "C06":
        r, states = _tlc(rep, "RenderSpec", UNIVERSE_RENDER_THOROUGH if thorough else UNIVERSE_QUICK, ["RenderRoundTrips"], report_violation=False)
        if r.violated:
            # design-level finding: explore everything without the invariant (verdicts come from the replay)
            rep.cov["design_level_invariant_violated"] = r.violated
            rep.cov["states"] = rep.cov["transitions"] = 0
            r, states = _tlc(rep, "RenderSpec", UNIVERSE_RENDER_THOROUGH if thorough else UNIVERSE_QUICK, [])
        vecs = [s for s in states if s["phase"] in ("range_done", "hole_done")]
        drift = 0
        for n, fails, d in _pmap(_render_chunk, _split(vecs)):
            total += n
            drift += d
            for f in fails:
                rep.violation(*f)
        rep.count("render_vectors", len(vecs))
        rep.count("algorithm_drift", drift)
        rep.sample({"vector": {k: vecs[len(vecs) // 3][k] for k in ("lo", "hi", "fl", "phase", "obs")}})
    if pid == "C04":
        seeds = [rep.seed * 7907 + i for i in range(20000 if thorough else 3000)]
        nr = 0
        for n, fails, raised in _pmap(_arbitrary_chunk, _split(seeds, 16)):
            total += n
            nr += raised
            for f in fails:
                rep.violation(*f)
        rep.count("arbitrary_equality_expressions", len(seeds))
        rep.count("arbitrary_equality_raised_ValueError", nr)
        arbitrary_mc(rep, thorough)          # the === algebra as a specification (ArbitraryEq.tla), every transition replayed
        check_interval.pairs_membership(rep, 4 if thorough else 3)
        check_interval.b2_behaviours(rep, 3, num=(6000 if thorough else 800), depth=(16 if thorough else 12))
    if pid in ("C04", "C06"):
        tmp = tempfile.mkdtemp(prefix="verif_p440s_")
        try:
            _b3(rep, pid, rep.seed, 4000 if thorough else 600, tmp)
        finally:
            shutil.rmtree(tmp, ignore_errors=True)
    rep.add("traces_validated_against_impl", total)
    if pid != "C17":
        rep.set(rule="every clause / every range and hole of the structured PEP 440 universe (TLC-enumerated), each replayed on the real code; "
                     "plus random sessions with leaf tables from packaging", exhaustive=True)
    rep.assumptions += ["packaging.SpecifierSet.contains(v, prereleases=True) on final candidates is the PEP 440 reference",
                        "bounded version universe (constants in tlc_runs); spelling variants are a replay dimension"]
    return rep.finish()


def _b3(rep: Report, pid: str, seed: int, n_sessions: int, tmp: str):
    from . import drive_spec
    jobs = [(seed * 977 + k, 100) for k in range((n_sessions + 99) // 100)]
    with mp.Pool(16) as pool:
        batches = pool.map(_risky_batch, jobs)
    sessions = []
    for b in batches:
        for s in b:
            s["sid"] = len(sessions) + 1
            sessions.append(s)
    rejects = check_interval.validate_sessions(sessions, tmp)
    by_sid = {s["sid"]: s for s in sessions}
    k = 0
    for (sid, l, bad) in rejects:
        for (p, clause) in bad:
            if p != pid:
                continue
            k += 1
            s = by_sid[sid]
            ev = s["events"][l - 1]
            sig = check_interval.classify_session_reject(p, clause, s, l)
            rep.violation(sig, f"session {sid} event {l} ({ev['op']} {ev.get('text', '')!r}) fails clause {clause}",
                          {"kind": "session", "session": s, "event": l, "clause": clause})
    rep.add("traces_validated_against_impl", len(sessions))
    rep.count("b3_sessions", len(sessions))
    rep.count("b3_events", sum(len(s["events"]) for s in sessions))
    rep.count("b3_rejected_clauses_this_property", k)


def _risky_batch(args):
    from . import drive_spec
    seed, n = args
    return [drive_spec.twin_session(i + 1, seed * 100019 + i) if i % 4 == 3 else drive_spec.random_session(i + 1, seed * 100003 + i, length=14, risky=True)
            for i in range(n)]
