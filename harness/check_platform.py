"""C09: platform tag sets and preference order.  MC: specs/PlatformTags.tla Grid (complete grid).
B1: every configuration's generated list, the standard's list and the per-tag scores are replayed
on Platform.compatible_tags / EnvSpec.compatibility; the specification's meaning layer is itself
cross-checked against packaging.tags (probes stubbed) - a disagreement there is a spec error (exit 2)."""
from __future__ import annotations

import os
import random
import shutil
import tempfile

from . import plat_iface, tla
from .engine import Report

FAT = ("fat64", "fat32", "fat")
GRID = {"MaxGlibcMinor": 50, "MaxMuslMinor": 5, "MaxMacMajor": 30}


def grid_cfg(spec: str, invs: list[str], consts: dict) -> str:
    return (f"SPECIFICATION {spec}\nCONSTANTS\n" + "".join(f" {k} = {v}\n" for k, v in consts.items()) +
            "".join(f"INVARIANT {i}\n" for i in invs) + "CHECK_DEADLOCK FALSE\n")


def run_grid(rep: Report, invs: list[str], consts: dict, spec="GridSpec", want_dump=True):
    tmp = tempfile.mkdtemp(prefix="verif_pt_")
    try:
        cfgp = os.path.join(tmp, "g.cfg")
        open(cfgp, "w").write(grid_cfg(spec, invs, consts))
        dump = os.path.join(tmp, "d")
        r = tla.run_tlc("PlatformTags.tla", cfgp, workers=16, args=(["-dump", dump] if want_dump else []))
        if r.violated:
            rep.violation(f"{rep.pid}:spec:{spec}:{r.violated}", f"TLC: invariant {r.violated} violated in {spec}", {"tlc_tail": r.out[-2500:]})
        else:
            tla.require_ok(r, f"TLC PlatformTags {spec}")
        rep.add("states", r.distinct)
        rep.add("transitions", r.generated)
        rep.cov.setdefault("tlc_runs", []).append({"config": spec, "constants": consts, "invariants": invs, "distinct": r.distinct, "wall_s": round(r.wall, 1)})
        return tla.load_dump(dump + ".dump") if want_dump else []
    finally:
        shutil.rmtree(tmp, ignore_errors=True)


def _claimed(tags: list[str]) -> list[str]:
    return [t for t in tags if not t.endswith(FAT) and "_fat" not in t]


def run(pid: str, tier: str, replay: str | None = None) -> int:
    from dep_logic.specifiers import parse_version_specifier
    from dep_logic.tags import EnvSpec
    rep = Report(pid, tier, "model_checking")
    rng = random.Random(rep.seed)
    states = run_grid(rep, ["TagsExact", "ScoreOrder", "NamesRoundTrip", "EnvironmentCoherent"], GRID)
    vectors = [s for s in states if s["phase"] == "tags"]
    evals = 0
    for v in vectors:
        c = v["p"]
        key = plat_iface.cfg_key(c)
        want = [plat_iface.render_tag(t) for t in v["want"]]
        algo = [plat_iface.render_tag(t) for t in v["tags"]]
        site = f"tags({c['os']}{'10' if c['os'] == 'macos' and c['major'] == 10 else ''},{c['arch']})"
        ctx = {"config": c, "want": want}
        # ---- meaning layer vs packaging.tags (spec error if they disagree)
        ref = plat_iface.packaging_tags(c)
        if ref is not None and not (c["os"] == "macos" and c["major"] == 10 and c["arch"] == "aarch64"):
            refc = [t for t in _claimed(ref) if not t.startswith("musllinux_1_0_")]
            ok = (refc == want) if c["os"] in ("manylinux", "macos") else (set(refc) == set(want))
            if not ok:
                raise tla.MachineryError(f"specification disagrees with packaging.tags for {key}: spec {want[:6]}.. packaging {refc[:6]}..")
        # ---- real code vs meaning layer
        try:
            plat = plat_iface.build_platform(c)
            real = list(plat.compatible_tags)
        except Exception as e:  # noqa: BLE001
            rep.violation(f"C09:{site}:raises-{type(e).__name__}", repr(e), ctx)
            continue
        evals += 1
        realc = _claimed(real)
        if c["os"] in ("manylinux", "macos"):
            if realc != want:
                cls = "set" if set(realc) != set(want) else "order"
                extra = sorted(set(realc) - set(want))[:3]
                missing = sorted(set(want) - set(realc))[:3]
                if c["os"] == "macos" and c["major"] == 10 and c["arch"] == "aarch64":
                    sig = "C09:tags(macos10,arm64):newer-than-target"
                else:
                    sig = f"C09:{site}:{cls}-differs"
                rep.violation(sig, f"{key}: compatible_tags differs from the standard's list ({cls}); extra {extra} missing {missing}", dict(ctx, real=real))
        elif set(realc) != set(want):
            rep.violation(f"C09:{site}:set-differs", f"{key}: extra {sorted(set(realc) - set(want))[:3]} missing {sorted(set(want) - set(realc))[:3]}", dict(ctx, real=real))
        if len(set(real)) != len(real):
            rep.violation(f"C09:{site}:duplicate-tags", f"{key}: duplicate entries in compatible_tags", dict(ctx, real=real))
        # ---- score: the fourth component of compatibility orders tags like the specification's Score
        if real == algo:
            es = EnvSpec(parse_version_specifier(">=3.8"), plat)
            order = list(range(len(algo)))
            rng.shuffle(order)
            probes = order[: (len(order) if tier == "thorough" else 12)]
            try:
                seen_scores: dict[int, int] = {}
                bad = False
                for i in probes + probes[:3]:          # repeated calls on the same EnvSpec
                    got = es.compatibility(["py3"], ["none"], [algo[i]])
                    evals += 1
                    if got is None or (i in seen_scores and seen_scores[i] != got[3]):
                        rep.violation(f"C09:score({c['os']}):wrong-score", f"{key}: tag {algo[i]} scored {got}" + (f" after {seen_scores[i]}" if i in seen_scores else ""), dict(ctx, tag=algo[i]))
                        bad = True
                        break
                    seen_scores[i] = got[3]
                # the score ORDERS the tags like the list (earlier = better); its scale is not part of the statement
                order = sorted(seen_scores)
                for i, j in zip(order, order[1:]):
                    if not bad and not seen_scores[i] > seen_scores[j]:
                        rep.violation(f"C09:score({c['os']}):wrong-score", f"{key}: tag {algo[i]} (position {i}) scored {seen_scores[i]}, not above {algo[j]} (position {j}) scored {seen_scores[j]}; "
                                      f"the specification's scores are {v['obs']['scores'][i]} and {v['obs']['scores'][j]}", dict(ctx, tag=algo[i]))
                        break
                a = es.compatibility(["py3"], ["none"], ["any"])
                n = es.compatibility(["py3"], ["none"], ["linux_nonesuch"])
                if a is None or n is not None or (seen_scores and not a[3] < min(seen_scores.values())):
                    rep.violation(f"C09:score({c['os']}):any-or-foreign", f"{key}: 'any' scored {a}, foreign tag scored {n}", ctx)
            except Exception as e:  # noqa: BLE001
                rep.violation(f"C09:score({c['os']}):raises-{type(e).__name__}", repr(e), ctx)
        elif set(real) != set(algo) or real != algo:
            rep.count("algorithm_drift")
        # beyond the listed properties: Platform.markers() vs its transcription (drift only, never an alarm)
        try:
            from dep_logic.tags.platform import Platform as _P
            saved = _P.is_current
            _P.is_current = lambda self: False
            try:
                mk = plat.markers()
            finally:
                _P.is_current = saved
            exp = {"os_name": "nt" if c["os"] == "windows" else "posix",
                   "sys_platform": "win32" if c["os"] == "windows" else "darwin" if c["os"] == "macos" else "linux",
                   "platform_machine": "arm64" if c["os"] in ("windows", "macos") and c["arch"] == "aarch64" else "AMD64" if c["os"] == "windows" and c["arch"] == "x86_64" else c["arch"],
                   "platform_system": "Darwin" if c["os"] == "macos" else "Windows" if c["os"] == "windows" else "Linux"}
            if any(mk.get(k) != v for k, v in exp.items()):
                rep.count("markers_transcription_drift")
            else:
                rep.count("markers_transcription_agrees")
        except Exception:  # noqa: BLE001
            rep.count("markers_transcription_drift")
        if len(rep.cov["samples"]) < 4 and rng.random() < 0.02:
            rep.sample({"config": c, "standard_list_head": want[:5], "len": len(want)})
    rep.set(traces_validated_against_impl=evals, evaluations=evals, distinct_nontrivial=len(vectors), exhaustive=True,
            constants=GRID, rule="every Platform of the configuration grid (manylinux 2.5-2.50 x 7 archs, musllinux 1.1-1.5 x 7, "
                                 "macOS 10.4-10.16 and 11-30 x 2, windows x 3); one case per configuration; scores probed per tag")
    rep.assumptions += ["packaging.tags generators (glibc/musl probes stubbed) are the cross-check of the specification's meaning layer",
                        "legacy fat* macOS formats are outside the claim and filtered before comparison"]
    if not rep.cov["samples"]:
        rep.sample({"config": vectors[0]["p"]})
    return rep.finish()
