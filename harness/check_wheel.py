"""C08 (python/ABI compatibility), C16 (widening / compare), C18 (wheel & platform names).

MC: specs/WheelCompat.tla (Decide, Widen), EnvCompare.tla, PlatformTags.tla (Pairs), WheelName.tla.
B1: every dumped state is replayed on EnvSpec / parse_wheel_tags / Platform.parse.
"""
from __future__ import annotations

import itertools
import multiprocessing as mp
import os
import random
import shutil
import tempfile

from . import plat_iface, spec_iface, tla
from .engine import Report

BASE = {"N": 47, "InnerPoints": "<- Inner2", "MaxGlibcMinor": 17, "MaxMuslMinor": 1, "MaxMacMajor": 11}


def _cfg(spec: str, consts: dict, invs: list[str]) -> str:
    lines = [f"SPECIFICATION {spec}", "CONSTANTS"]
    for k, v in consts.items():
        lines.append(f" {k} {v}" if str(v).startswith("<-") else f" {k} = {v}")
    lines += [f"INVARIANT {i}" for i in invs] + ["CHECK_DEADLOCK FALSE"]
    return "\n".join(lines) + "\n"


def _tlc(rep: Report, module: str, spec: str, consts: dict, invs: list[str], dump=True, workers=16):
    tmp = tempfile.mkdtemp(prefix="verif_wc_")
    try:
        cfgp = os.path.join(tmp, "c.cfg")
        open(cfgp, "w").write(_cfg(spec, consts, invs))
        d = os.path.join(tmp, "d")
        r = tla.run_tlc(module, cfgp, workers=workers, args=(["-dump", d] if dump else []))
        if r.violated:
            rep.violation(f"{rep.pid}:spec:{spec}:{r.violated}", f"TLC: invariant {r.violated} violated in {module}/{spec}", {"tlc_tail": r.out[-2000:]})
        else:
            tla.require_ok(r, f"TLC {module} {spec}")
        rep.add("states", r.distinct)
        rep.add("transitions", r.generated)
        rep.cov.setdefault("tlc_runs", []).append({"module": module, "spec": spec, "constants": {k: str(v) for k, v in consts.items()},
                                                   "invariants": invs, "distinct": r.distinct, "wall_s": round(r.wall, 1)})
        states = tla.load_dump(d + ".dump") if dump else []
        return r, states
    finally:
        shutil.rmtree(tmp, ignore_errors=True)


# --------------------------------------------------------------------------- rendering
def vstr(v) -> str:
    x, y, z = v
    return f"{x}.{y}" if z == 0 else f"{x}.{y}.{z}"


def py_tag(t: dict) -> str:
    return f"{t['impl']}{t['major']}" + ("" if t["minor"] == -1 else str(t["minor"]))


def abi_tag(a: dict) -> str:
    if a["kind"] in ("none", "abi3"):
        return a["kind"]
    if a["impl"] == "pp":
        return f"pypy{a['major']}{a['minor']}_pp73"
    if a["impl"] == "pt":
        return f"pyston{a['major']}{a['minor']}_23"
    return f"cp{a['major']}{a['minor']}{a['flag']}"


def _reversed_text(rp_shape: dict, grid: list[str]) -> str | None:
    """The same requires_python as a user may write it: upper bound FIRST in every two-sided range (the parser then
    intersects the clauses in that order), `||` between ranges.  None when nothing would differ from text_of()."""
    if rp_shape["k"] not in ("range", "union") or not any(r["lo"] and r["hi"] for r in rp_shape["rs"]):
        return None
    parts = []
    for r in rp_shape["rs"]:
        cl = spec_iface.range_text(r, grid).split(",")
        parts.append(",".join(reversed(cl)))
    return "||".join(parts)


def build_envspec(rp_shape: dict, setting: dict, grid: list[str], plat=None, parsed=False):
    from dep_logic.tags import EnvSpec, Implementation
    txt = _reversed_text(rp_shape, grid) if parsed else None
    if txt is not None:
        from dep_logic.specifiers import parse_version_specifier
        rp = parse_version_specifier(txt)
    else:
        rp = spec_iface.build(rp_shape, grid)
    impl = None
    if setting["impl"]:
        impl = Implementation({"cp": "cpython", "pp": "pypy", "pt": "pyston"}[setting["impl"]], bool(setting["ft"] == 1))
    return EnvSpec(rp, plat, impl)


def _abi_class(t: dict, a: dict) -> str:
    if a["kind"] != "concrete":
        return a["kind"]
    if (a["impl"], a["major"], a["minor"]) == (t["impl"], t["major"], t["minor"]):
        return "own" + (a["flag"] and "-" + a["flag"])
    if t["minor"] in (1, 2) and a["minor"] == 10 * t["minor"] and a["impl"] == t["impl"]:
        return "digit-prefix"
    return "foreign"


def _py_class(t: dict) -> str:
    return t["impl"] + ("X" if t["minor"] == -1 else "XY")


# --------------------------------------------------------------------------- C08 worker
def _decide_chunk(args):
    states, pairs, grid, seed = args
    rng = random.Random(seed)
    fails = []
    n = 0
    for k, st in enumerate(states):
        try:
            # every other requires_python is obtained by PARSING its text (upper bounds first), the rest by the constructors
            es = build_envspec(st["rp"], st["set"], grid, parsed=(k % 2 == 1))
        except Exception as e:  # noqa: BLE001
            fails.append((f"C08:build:{type(e).__name__}", repr(e), {"rp": st["rp"], "set": st["set"]}))
            continue
        rp_txt = (k % 2 == 1 and _reversed_text(st["rp"], grid)) or spec_iface.text_of(st["rp"], grid)
        real = []
        scored = []
        for i, (t, a) in enumerate(pairs):
            want = st["wants"][i]
            n += 1
            try:
                got = es.compatibility([py_tag(t)], [abi_tag(a)], ["any"])
            except Exception as e:  # noqa: BLE001
                fails.append((f"C08:compat({_py_class(t)},{_abi_class(t, a)}):raises-{type(e).__name__}", repr(e),
                              {"rp": st["rp"], "requires_python": rp_txt, "set": st["set"], "py": py_tag(t), "abi": abi_tag(a)}))
                real.append(None)
                continue
            real.append(got)
            if want[0] == 2:
                continue
            ctx = {"rp": st["rp"], "requires_python": rp_txt, "set": st["set"], "py": py_tag(t), "abi": abi_tag(a), "got": got, "want": want,
                   "spec_algorithm_says": st["verdicts"][i]}
            site = f"compat({_py_class(t)},{_abi_class(t, a)})"
            if (got is not None) != (want[0] == 1):
                cls = "accepts-unloadable" if got is not None else "rejects-loadable"
                fails.append((f"C08:{site}:{cls}", f"requires_python {rp_txt!r} setting {st['set']}: {py_tag(t)}-{abi_tag(a)} -> {got}; "
                              f"rule says {'compatible' if want[0] == 1 else 'incompatible'}", ctx))
            elif got is not None:
                scored.append((tuple(want[1:]), tuple(got[:3]), site, py_tag(t), abi_tag(a), ctx))
        # the score ORDERS candidates (interpreter version, then native ABI > abi3 > none); its scale is not part of the statement:
        # the real scores must be an order-isomorphic image of the rule's (same order, same ties)
        by_want: dict = {}
        for w, g, site, pt_, at_, ctx in scored:
            by_want.setdefault(w, []).append((g, site, pt_, at_, ctx))
        prev = None
        for w in sorted(by_want):
            gs = {g for g, *_ in by_want[w]}
            g0, site, pt_, at_, ctx = by_want[w][0]
            if len(gs) > 1:
                fails.append((f"C08:{site}:score", f"candidates of equal rank {w} are scored differently: {sorted(gs)[:3]}", ctx))
            elif prev is not None and not (prev[1] < g0):
                fails.append((f"C08:{site}:score", f"{pt_}-{at_} (rank {w}) scored {g0}, not above {prev[2]} (rank {prev[0]}) scored {prev[1]}", ctx))
            prev = (w, max(gs), f"{pt_}-{at_}")
        # compressed tag sets: compatibility of a multi-tag wheel is the max over its combinations
        for _ in range(3):
            idx = rng.sample(range(len(pairs)), 3)
            pys = sorted({py_tag(pairs[i][0]) for i in idx})
            abis = sorted({abi_tag(pairs[i][1]) for i in idx})
            combos = {(py_tag(t), abi_tag(a)): real[i] for i, (t, a) in enumerate(pairs)}
            if any((p, a) not in combos for p in pys for a in abis):
                continue
            exp = max(filter(None, (combos[(p, a)] for p in pys for a in abis)), default=None)
            n += 1
            try:
                got = es.wheel_compatibility(f"pkg-1.0-{'.'.join(pys)}-{'.'.join(abis)}-any.whl")
            except Exception as e:  # noqa: BLE001
                fails.append((f"C08:multi:raises-{type(e).__name__}", repr(e), {"pys": pys, "abis": abis}))
                continue
            if got != exp:
                fails.append(("C08:multi:not-max-over-combinations", f"{pys} x {abis}: {got} != max over combinations {exp}",
                              {"rp": st["rp"], "set": st["set"], "pys": pys, "abis": abis}))
    return n, fails


def _grid_and_pairs(out: str):
    tp = tla.printed_values(out, "TAGPAIRS")
    vg = tla.printed_values(out, "VGRID")
    if not tp or not vg:
        raise tla.MachineryError("TLC output lacks TAGPAIRS/VGRID")
    pairs = [(p[0], p[1]) for p in tp[0][1]]
    grid = [vstr(v) for v in vg[0][1]]
    return grid, pairs


def run_c08(rep: Report, tier: str) -> None:
    thorough = tier == "thorough"
    runs = [dict(BASE, Minors="<- MinorsQuick", BoundSel="<- BoundsQuick")]
    if thorough:
        runs.append(dict(BASE, Minors="<- MinorsAll", BoundSel="<- BoundsWide"))
    total = 0
    for consts in runs:
        r, states = _tlc(rep, "WheelCompatMC.tla", "DecideSpec", consts, ["DecisionExact"])
        if r.violated:
            # design-level finding: the transcription itself breaks the rule somewhere.  Drop the
            # stopped run and explore again without the invariant so that EVERY vector is replayed;
            # verdicts about the code come from the replay below (DESIGN section 4).
            rep._viol = [v for v in rep._viol if ":spec:" not in v["signature"]]
            rep.cov["design_level_invariant_violated"] = r.violated
            rep.cov["states"] = rep.cov["transitions"] = 0
            r, states = _tlc(rep, "WheelCompatMC.tla", "DecideSpec", consts, [])
        grid, pairs = _grid_and_pairs(r.out)
        vecs = [s for s in states if s["phase"] == "decided"]
        size = max(1, len(vecs) // 32)
        jobs = [(vecs[i:i + size], pairs, grid, rep.seed + i) for i in range(0, len(vecs), size)]
        with mp.Pool(16) as pool:
            for n, fails in pool.map(_decide_chunk, jobs):
                total += n
                for sig, detail, vec in fails:
                    rep.violation(sig, detail, vec)
        rep.count("tag_pairs", len(pairs))
        rep.count("requires_python_x_settings", len(vecs))
        if vecs:
            v = vecs[len(vecs) // 2]
            rep.sample({"requires_python": spec_iface.text_of(v["rp"], grid), "setting": v["set"],
                        "pairs_head": [[py_tag(t), abi_tag(a), v["wants"][i]] for i, (t, a) in enumerate(pairs[:6])]})
    rep.add("traces_validated_against_impl", total)
    rep.set(rule="every (requires_python of the family, implementation/gil setting) state x every tag pair of the universe; "
                 "requires_python family = all unions of cells cut by the selected bounds", exhaustive=True)


# --------------------------------------------------------------------------- C16
def _widen_chunk(args):
    states, pairs, grid = args
    fails, n = [], 0
    for k, st in enumerate(states):
        a = build_envspec(st["rp"], st["set"], grid, parsed=(k % 2 == 1))
        b = build_envspec(st["rp2"], st["set"], grid, parsed=(k % 2 == 1))
        for (t, ab) in pairs:
            n += 1
            try:
                ga = a.compatibility([py_tag(t)], [abi_tag(ab)], ["any"])
                gb = b.compatibility([py_tag(t)], [abi_tag(ab)], ["any"])
            except Exception as e:  # noqa: BLE001
                fails.append((f"C16:widen:raises-{type(e).__name__}", repr(e), {"rp": st["rp"], "rp2": st["rp2"]}))
                continue
            if ga is not None and gb is None:
                fails.append((f"C16:widen({_py_class(t)},{_abi_class(t, ab)}):wheel-lost",
                              f"{py_tag(t)}-{abi_tag(ab)} compatible with {spec_iface.text_of(st['rp'], grid)!r} but not with the wider {spec_iface.text_of(st['rp2'], grid)!r}",
                              {"rp": st["rp"], "rp2": st["rp2"], "set": st["set"], "py": py_tag(t), "abi": abi_tag(ab)}))
    return n, fails


CMP = {"incompatible": "INCOMPATIBLE", "le": "LOWER_OR_EQUAL", "higher": "HIGHER"}


def _env_of(e: dict, grid):
    plat = plat_iface.build_platform(e["plat"]) if e["plat"]["os"] else None
    return build_envspec(e["rp"], {"impl": e["impl"], "ft": e["ft"]}, grid, plat)


def _cmp_chunk(args):
    states, grid = args
    fails, n = [], 0
    for st in states:
        x, y = _env_of(st["x"], grid), _env_of(st["y"], grid)
        n += 1
        ctx = {"x": st["x"], "y": st["y"]}
        has = bool(st["x"]["plat"]["os"] and st["y"]["plat"]["os"])
        oscls = f"{st['x']['plat']['os'] or 'none'},{st['y']['plat']['os'] or 'none'}"
        try:
            c, rv = x.compare(y).name, y.compare(x).name
            refl = x.compare(x).name
        except Exception as e:  # noqa: BLE001
            fails.append((f"C16:compare({oscls}):raises-{type(e).__name__}", repr(e), ctx))
            continue
        if refl != "LOWER_OR_EQUAL":
            fails.append((f"C16:compare({oscls}):not-reflexive", f"x.compare(x) = {refl}", ctx))
        if (c == "INCOMPATIBLE") != (rv == "INCOMPATIBLE"):
            fails.append((f"C16:compare({oscls}):incompatible-asymmetric", f"{x} vs {y}: {c} / {rv}", ctx))
        if c == "HIGHER" and rv == "HIGHER":
            fails.append((f"C16:compare({oscls}):higher-both-ways", f"{x} vs {y}", ctx))
        if has:
            tx, ty = set(x.platform.compatible_tags), set(y.platform.compatible_tags)
            if c == "LOWER_OR_EQUAL" and not tx <= ty:
                fails.append((f"C16:compare({oscls}):le-without-nesting", f"{x} <= {y} but tags not nested", ctx))
            if c == "HIGHER" and not ty <= tx:
                fails.append((f"C16:compare({oscls}):higher-without-nesting", f"{x} > {y} but tags not nested", ctx))
    return n, fails


def _platpair_chunk(states):
    fails, n = [], 0
    for st in states:
        p, q = plat_iface.build_platform(st["p"]), plat_iface.build_platform(st["q"])
        n += 1
        tp, tq = set(p.compatible_tags), set(q.compatible_tags)
        newer = (st["p"]["os"], st["p"]["arch"]) == (st["q"]["os"], st["q"]["arch"]) and \
                (st["p"]["major"], st["p"]["minor"]) <= (st["q"]["major"], st["q"]["minor"])
        if newer and not tp <= tq:
            fails.append((f"C16:platform({st['p']['os']},{st['p']['arch']}):newer-loses-tags",
                          f"{p} accepts {sorted(tp - tq)[:3]} which the newer {q} does not", {"p": st["p"], "q": st["q"]}))
        # (whether unrelated platforms happen to nest is not part of the property: no clause for it)
        # EnvSpec.compare on the real pair (same requires_python, no implementation): the property's clauses
        try:
            from dep_logic.specifiers import parse_version_specifier
            from dep_logic.tags import EnvSpec
            rp = parse_version_specifier(">=3.8")
            x, y = EnvSpec(rp, p), EnvSpec(rp, q)
            c, rv = x.compare(y).name, y.compare(x).name
        except Exception as e:  # noqa: BLE001
            fails.append((f"C16:compare({st['p']['os']},{st['q']['os']}):raises-{type(e).__name__}", repr(e), {"p": st["p"], "q": st["q"]}))
            continue
        oscls = f"{st['p']['os']},{st['q']['os']}"
        ctx = {"p": st["p"], "q": st["q"], "compare": c, "reverse": rv, "spec_compare": st["obs"]["cmp"]}
        # "accepted" is what the public entry point answers, not only what the list holds: every tag the older platform
        # accepts through EnvSpec.compatibility is accepted by the newer one through EnvSpec.compatibility
        if newer or c == "LOWER_OR_EQUAL":
            try:
                lost = [t for t in p.compatible_tags
                        if x.compatibility(["py3"], ["none"], [t]) is not None and y.compatibility(["py3"], ["none"], [t]) is None]
                unlisted = [t for t in p.compatible_tags if x.compatibility(["py3"], ["none"], [t]) is None]
            except Exception as e:  # noqa: BLE001
                fails.append((f"C16:compatibility({oscls}):raises-{type(e).__name__}", repr(e), ctx))
                continue
            if lost:
                fails.append((f"C16:platform({st['p']['os']},{st['p']['arch']}):newer-rejects-accepted-tag",
                              f"{x} accepts {lost[:3]} through compatibility(); {y} ({'newer' if newer else 'compare() says >='}) rejects them", ctx))
            if unlisted:
                fails.append((f"C16:platform({st['p']['os']},{st['p']['arch']}):listed-tag-rejected",
                              f"{x}: compatible_tags lists {unlisted[:3]} but compatibility() rejects them", ctx))
        if st["p"] == st["q"] and c != "LOWER_OR_EQUAL":
            fails.append((f"C16:compare({oscls}):not-reflexive", f"{x}.compare(itself) = {c}", ctx))
        if (c == "INCOMPATIBLE") != (rv == "INCOMPATIBLE"):
            fails.append((f"C16:compare({oscls}):incompatible-asymmetric", f"{x} vs {y}: {c} / {rv}", ctx))
        if c == "HIGHER" and rv == "HIGHER":
            fails.append((f"C16:compare({oscls}):higher-both-ways", f"{x} vs {y}", ctx))
        if c == "LOWER_OR_EQUAL" and not tp <= tq:
            fails.append((f"C16:compare({oscls}):le-without-nesting", f"{x} <= {y} but {sorted(tp - tq)[:3]} are accepted by the first only", ctx))
        if c == "HIGHER" and not tq <= tp:
            fails.append((f"C16:compare({oscls}):higher-without-nesting", f"{x} > {y} but {sorted(tq - tp)[:3]} are accepted by the second only", ctx))
    return n, fails


def _pmap(fn, jobs):
    with mp.Pool(16) as pool:
        return pool.map(fn, jobs)


def _split(xs, k=48):
    size = max(1, (len(xs) + k - 1) // k)
    return [xs[i:i + size] for i in range(0, len(xs), size)]


def run_c16(rep: Report, tier: str) -> None:
    thorough = tier == "thorough"
    total = 0
    # (1) widening requires_python
    consts = dict(BASE, Minors="<- MinorsQuick", BoundSel=("<- BoundsQuick" if thorough else "<- BoundsPair"))
    r, states = _tlc(rep, "WheelCompatMC.tla", "WidenSpec", consts, ["WideningKeepsWheels"])
    grid, pairs = _grid_and_pairs(r.out)
    vecs = [s for s in states if s["phase"] == "widened"]
    for n, fails in _pmap(_widen_chunk, [(ch, pairs, grid) for ch in _split(vecs)]):
        total += n
        for f in fails:
            rep.violation(*f)
    rep.count("widen_pairs_of_requires_python", len(vecs))
    # (2) EnvSpec.compare over a grid of environment specs
    consts = dict(BASE, Minors="<- MinorsTiny", BoundSel="<- BoundsOne", PlatSel=("<- PlatsQuick" if thorough else "<- PlatsSmall"))
    r, states = _tlc(rep, "EnvCompareMC.tla", "CmpSpec", consts, ["CompareLaws"])
    grid2, _ = _grid_and_pairs(r.out) if "VGRID" in r.out else (grid, None)
    vecs = [s for s in states if s["phase"] == "cmp"]
    for n, fails in _pmap(_cmp_chunk, [(ch, grid) for ch in _split(vecs)]):
        total += n
        for f in fails:
            rep.violation(*f)
    rep.count("compare_pairs", len(vecs))
    if vecs:
        rep.sample({"compare_pair": {"x": vecs[len(vecs) // 3]["x"], "y": vecs[len(vecs) // 3]["y"], "spec": vecs[len(vecs) // 3]["obs"]}})
    # (3) platform tag nesting over all pairs of the platform grid
    from .check_platform import GRID, run_grid
    pc = GRID if thorough else {"MaxGlibcMinor": 19, "MaxMuslMinor": 3, "MaxMacMajor": 13}
    states = run_grid(rep, ["Monotone", "CompareConsistent"], pc, spec="PairsSpec")
    vecs = [s for s in states if s["phase"] == "cmp"]
    for n, fails in _pmap(_platpair_chunk, _split(vecs)):
        total += n
        for f in fails:
            rep.violation(*f)
    rep.count("platform_pairs", len(vecs))
    rep.add("traces_validated_against_impl", total)
    rep.set(rule="all pairs (rp, rp2) of the requires_python family with rp subset of rp2 x settings x tag universe; "
                 "all ordered pairs of the EnvSpec grid; all ordered pairs of the platform grid", exhaustive=True)


# --------------------------------------------------------------------------- C18
DIST = ["pkg", "foo_bar", "zope.interface", "a.b"]
VERS = ["1", "1.0", "1.0.post1", "2!1.0", "1.0+local.1", "2024.1.15"]
PYS = ["py3", "py2", "cp39", "cp310", "pp310", "cp313"]
ABIS = ["none", "abi3", "cp39", "cp310", "pypy310_pp73", "cp313t"]
PLATS = ["any", "manylinux_2_17_x86_64", "manylinux2014_x86_64", "macosx_10_9_universal2", "win_amd64", "musllinux_1_2_aarch64", "linux_armv7l"]


def run_c18(rep: Report, tier: str) -> None:
    from packaging.utils import InvalidWheelFilename as PkgInvalid
    from packaging.utils import parse_wheel_filename
    from dep_logic.tags import EnvSpec, InvalidWheelFilename, Platform
    from dep_logic.tags.tags import parse_wheel_tags
    rng = random.Random(rep.seed)
    r, states = _tlc(rep, "WheelName.tla", "NameSpec", {"MaxTags": 3}, ["ParseExact"], workers=8)
    vecs = [s for s in states if s["phase"] == "parsed"]
    n = 0
    for st in vecs:
        nm = st["nm"]
        for rep_i in range(4 if tier == "thorough" else 2):
            dist = rng.choice([d for d in DIST if d.count(".") + 1 == nm["distParts"]] or ["pkg"])
            ver = rng.choice([v for v in VERS if v.replace("!", ".").replace("+", ".").count(".") + 1 >= 1])
            # version text: exactly verParts dotted parts (dots inside the version do not matter to the split)
            ver = ".".join(["1", "0", "post1"][: nm["verParts"]])
            fields = [dist, ver] + (["1abc"] if nm["build"] else []) + [".".join(rng.sample(PYS, nm["py"])), ".".join(rng.sample(ABIS, nm["abi"])), ".".join(rng.sample(PLATS, nm["plat"]))]
            if nm["mut"] == "drop":
                fields = fields[1:]
            elif nm["mut"] == "extra":
                fields = ["x"] + fields
            elif nm["mut"] == "extra2":
                fields = ["x", "y"] + fields
            fname = "-".join(fields) + (".zip" if nm["mut"] == "ext" else rng.choice([".WHL", ".Whl"]) if nm["mut"] == "extcase" else ".whl")
            n += 1
            ctx = {"name": fname, "model": nm, "spec": st["out"]}
            site = f"wheel({'build' if nm['build'] else 'nobuild'},{nm['mut']})"
            try:
                got = parse_wheel_tags(fname)
                got = tuple(list(x) for x in got)          # (whatever iterable is returned, it is read once)
                exc = None
            except InvalidWheelFilename:
                got, exc = None, "InvalidWheelFilename"
            except Exception as e:  # noqa: BLE001
                got, exc = None, type(e).__name__
            if st["out"]["ok"]:
                if got is None:
                    rep.violation(f"C18:{site}:rejects-wellformed:{exc}", f"{fname}: raised {exc}", ctx)
                    continue
                if [len(x) for x in got] != list(st["out"]["tags"]):
                    rep.violation(f"C18:{site}:tag-counts", f"{fname}: parsed {got}, specification expects set sizes {st['out']['tags']}", ctx)
                # reference: packaging (only for names packaging accepts)
                try:
                    _, _, _, ptags = parse_wheel_filename(fname)
                except (PkgInvalid, Exception):  # noqa: BLE001
                    ptags = None
                if ptags is not None:
                    ref = {(t.interpreter, t.abi, t.platform) for t in ptags}
                    mine = set(itertools.product(*got))
                    if ref != mine:
                        rep.violation(f"C18:{site}:differs-from-packaging", f"{fname}: {sorted(mine)[:3]} vs packaging {sorted(ref)[:3]}", ctx)
                    try:
                        es = EnvSpec.from_spec(">=3.9", "linux", "cpython")
                        wc = es.wheel_compatibility(fname)
                        # what wheel_compatibility() must have seen: the best of packaging's expanded tag triples
                        best = max(filter(None, (es.compatibility([t.interpreter], [t.abi], [t.platform]) for t in ptags)), default=None)
                        if wc != best:
                            rep.violation(f"C18:{site}:wheel_compatibility-differs", f"{fname}: wheel_compatibility() = {wc}, best over packaging's expanded tags = {best}", ctx)
                    except Exception as e:  # noqa: BLE001
                        rep.violation(f"C18:{site}:wheel_compatibility-raises-{type(e).__name__}", repr(e), ctx)
            else:
                if exc != "InvalidWheelFilename":
                    rep.violation(f"C18:{site}:accepts-or-wrong-exception", f"{fname}: expected InvalidWheelFilename, got {exc or got}", ctx)
                # the same name through the public entry point
                try:
                    wc = EnvSpec.from_spec(">=3.9", "linux", "cpython").wheel_compatibility(fname)
                    rep.violation(f"C18:{site}:wheel_compatibility-accepts-malformed", f"{fname}: wheel_compatibility() returned {wc}", ctx)
                except InvalidWheelFilename:
                    pass
                except Exception as e:  # noqa: BLE001
                    rep.violation(f"C18:{site}:wheel_compatibility-wrong-exception-{type(e).__name__}", f"{fname}: {e!r}", ctx)
        if len(rep.cov["samples"]) < 3 and rng.random() < 0.01:
            rep.sample(ctx)
    # ---- platform names (PlatformTags.NamesRoundTrip is the MC part)
    from .check_platform import GRID, run_grid
    states = run_grid(rep, ["NamesRoundTrip"], GRID, want_dump=True)
    for st in states:
        if st["phase"] != "cfg":
            continue
        c = st["p"]
        n += 1
        try:
            p = plat_iface.build_platform(c)
            txt = str(p)
            back = Platform.parse(txt)
        except Exception as e:  # noqa: BLE001
            rep.violation(f"C18:platform({c['os']},{c['arch']}):raises-{type(e).__name__}", repr(e), {"config": c})
            continue
        if back != p or plat_iface.project_platform(back) != c:
            rep.violation(f"C18:platform({c['os']},{c['arch']}):roundtrip", f"Platform.parse({txt!r}) = {back} != {p}", {"config": c, "text": txt})
    # ---- every documented name (PlatformTags.NamesSpec: aliases, grid names, architecture spellings) resolves in the
    #      code to the platform the specification resolves it to
    for st in run_grid(rep, ["AllNamesResolve", "AliasesResolve", "ResolvedRoundTrip"], GRID, spec="NamesSpec", want_dump=True):
        if st["phase"] != "resolved":
            continue
        n += 1
        txt = plat_iface.render_name(st["tags"])
        try:
            got = plat_iface.project_platform(Platform.parse(txt))
        except Exception as e:  # noqa: BLE001
            rep.violation(f"C18:resolve({st['tags'][0]}):raises-{type(e).__name__}", f"Platform.parse({txt!r}): {e!r}", {"text": txt, "specification": st["p"]})
            continue
        if got != st["p"]:
            kind = "alias" if len(st["tags"]) <= 3 and not any(isinstance(t, int) for t in st["tags"]) and st["tags"][0] != "windows" else "name"
            rep.violation(f"C18:resolve({kind}:{st['tags'][0]}):wrong-target", f"Platform.parse({txt!r}) = {got}; specification {st['p']}", {"text": txt, "specification": st["p"]})
    # multi-digit versions / architectures with underscores / aliases / choices()
    extra = []
    for os_, major, minor, arch in itertools.product(["manylinux", "musllinux", "macos"], [1, 2, 10, 12, 123], [0, 5, 17, 100], ["x86_64", "aarch64", "arm64", "ppc64le", "s390x", "i686", "amd64"]):
        extra.append(f"{os_}_{major}_{minor}_{arch}")
    alias = {"linux": "manylinux_2_17_x86_64", "windows": "windows_amd64", "macos": "macos_14_0_arm64", "alpine": "musllinux_1_2_x86_64",
             "macos_arm64": "macos_14_0_arm64", "macos_x86_64": "macos_14_0_x86_64"}
    from dep_logic.tags.platform import Arch
    for txt in extra:
        n += 1
        os_, major, minor, arch = txt.split("_", 3)
        try:
            p = Platform.parse(txt)
        except Exception as e:  # noqa: BLE001
            rep.violation(f"C18:platform-name({os_}):raises-{type(e).__name__}", f"{txt}: {e!r}", {"text": txt})
            continue
        proj = plat_iface.project_platform(p)
        if (proj["os"], proj["major"], proj["minor"]) != (os_, int(major), int(minor)) or p.arch != Arch.parse(arch):
            rep.violation(f"C18:platform-name({os_}):misparsed", f"{txt} -> {p}", {"text": txt})
        elif Platform.parse(str(p)) != p:
            rep.violation(f"C18:platform-name({os_}):roundtrip", f"{txt} -> {p} -> {Platform.parse(str(p))}", {"text": txt})
    for a, target in alias.items():
        n += 1
        try:
            if Platform.parse(a) != Platform.parse(target):
                rep.violation(f"C18:alias({a}):wrong-target", f"{a} -> {Platform.parse(a)}, documented {target}", {"alias": a})
        except Exception as e:  # noqa: BLE001
            rep.violation(f"C18:alias({a}):raises-{type(e).__name__}", repr(e), {"alias": a})
    for ch in Platform.choices():
        n += 1
        inst = ch.replace("X_Y", "12_3")
        try:
            p = Platform.parse(inst)
            if "X_Y" in ch and (plat_iface.project_platform(p)["major"], plat_iface.project_platform(p)["minor"]) != (12, 3):
                rep.violation(f"C18:choices({ch}):misparsed", f"{inst} -> {p}", {"choice": ch})
        except Exception as e:  # noqa: BLE001
            rep.violation(f"C18:choices({ch}):raises-{type(e).__name__}", repr(e), {"choice": ch})
    rep.add("traces_validated_against_impl", n)
    rep.set(evaluations=n, distinct_nontrivial=len(vecs), exhaustive=False,
            rule="every structured wheel name of WheelName.tla (dist/version dot counts, build tag, 1-3 tags per set, 4 malformations) rendered "
                 "with sampled concrete tags; every platform of the grid + multi-digit / alias / choices() names")
    if not rep.cov["samples"]:
        rep.sample({"name": "pkg-1.0-py3-none-any.whl"})


def run(pid: str, tier: str, replay: str | None = None) -> int:
    level = "exploration" if pid == "C18" else "model_checking"
    rep = Report(pid, tier, level)
    rep.assumptions += ["version grid: series boundaries X.Y.0 (majors 2-3, minors 0-21), 4.0.0 and two inner points"]
    {"C08": run_c08, "C16": run_c16, "C18": run_c18}[pid](rep, tier)
    return rep.finish()
