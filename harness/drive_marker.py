"""B3 driver for MARKERS: random sessions on the real marker objects, one logged event per public
call (parse / & / | / reparse / only / exclude / without_extras / law), with the truth table of
every result over the session's environment grid taken from the real evaluate().
Validated by specs/MarkerSessionTrace.tla.
"""
from __future__ import annotations

import itertools
import random
import re
import signal

from packaging.markers import InvalidMarker as PkgInvalidMarker
from packaging.markers import Marker as PkgMarker

from dep_logic.markers import (AnyMarker, EmptyMarker, MarkerExpression, MarkerUnion, MultiMarker,
                               parse_marker)
from dep_logic.markers.single import EqualityMarkerUnion, InequalityMultiMarker

CALL_TIMEOUT = 2.0


class _Timeout(Exception):
    pass


def _alarm(signum, frame):
    raise _Timeout()


def timed(fn, *args, secs: float = CALL_TIMEOUT):
    """Run fn under a per-call alarm.  Returns (value, exc_name).  The alarm may fire at ANY point up to the moment it is
    disarmed - also after fn has returned - so the disarming itself sits inside a handler for it."""
    old = signal.signal(signal.SIGALRM, _alarm)
    out = (None, "Timeout")
    try:
        try:
            signal.setitimer(signal.ITIMER_REAL, secs)
            try:
                out = (fn(*args), "")
            except _Timeout:
                out = (None, "Timeout")
            except Exception as e:  # noqa: BLE001
                out = (None, type(e).__name__)
            finally:
                signal.setitimer(signal.ITIMER_REAL, 0)
        except _Timeout:              # fired between the end of fn and the disarming
            signal.setitimer(signal.ITIMER_REAL, 0)
            out = (None, "Timeout")
    finally:
        signal.signal(signal.SIGALRM, old)
    return out


# --------------------------------------------------------------------------- alphabet
VERSION_VARS = {
    "python_version": ["3.7", "3.8", "3.9", "3.10", "3.11", "3", "2.7"],
    "python_full_version": ["3.8", "3.8.1", "3.9.0", "3.10.2", "3.7.9", "3.10", "3.9"],
    "platform_release": ["5.10", "6.1", "5.10.0", "6", "4.19.2"],
}
STRING_VARS = {
    "os_name": ["posix", "nt", "java"],
    "sys_platform": ["linux", "win32", "darwin", "linux2", "cygwin", "win"],
    "platform_machine": ["x86_64", "arm64", "aarch64", "AMD64", "x86"],
    "implementation_name": ["cpython", "pypy"],
    "platform_system": ["Linux", "Windows", "Darwin"],
}
EXTRA_NAMES = ["foo", "bar", "Foo_Bar", "foo-bar", "baz"]
# set-valued variables of lock files (PEP 751): `"name" in extras`, `"name" not in dependency_groups`; evaluated with
# context="lock_file" (sessions that mention them never mention the scalar `extra`)
MEMBER_VARS = {"extras": ["foo", "bar", "Foo_Bar", "foo-bar"], "dependency_groups": ["dev", "test", "Dev"]}


def gen_atom(rng: random.Random, var: str, *, reversed_ok=True) -> str:
    if var in VERSION_VARS:
        pool = VERSION_VARS[var]
        v = rng.choice(pool)
        kind = rng.choice(["cmp"] * 6 + ["compat", "wild", "wild"] + (["list", "list"] if var == "python_version" else []))
        if kind == "cmp":
            op = rng.choice(["==", "!=", "<", "<=", ">", ">="])
            if reversed_ok and rng.random() < 0.2:
                return f'"{v}" {op} {var}'
            return f'{var} {op} "{v}"'
        if kind == "compat":
            v = rng.choice([x for x in pool if x.count(".") >= 1])
            return f'{var} ~= "{v}"'
        if kind == "wild":
            base = rng.choice([x for x in pool if x.count(".") <= 1])
            return f'{var} {rng.choice(["==", "!="])} "{base}.*"'
        vals = rng.sample(pool, rng.choice([1, 2, 2, 3]))
        # comma separated lists of complete X.Y values (the documented form; blank-separated lists and
        # one-segment elements are outside "python_version in/not in lists")
        vals = [v for v in vals if v.count(".") == 1] or ["3.8"]
        return f'{var} {rng.choice(["in", "not in"])} "{rng.choice([", ", ","]).join(vals)}"'
    if var in MEMBER_VARS:
        return f'"{rng.choice(MEMBER_VARS[var])}" {rng.choice(["in", "in", "not in"])} {var}'
    if var == "extra":
        n = rng.choice(EXTRA_NAMES)
        op = rng.choice(["==", "==", "!="])
        if reversed_ok and rng.random() < 0.15:
            return f'"{n}" {op} extra'
        return f'extra {op} "{n}"'
    pool = STRING_VARS[var]
    op = rng.choice(["==", "==", "!=", "!=", "in", "not in"])
    if op in ("in", "not in"):
        vals = rng.sample(pool, rng.choice([1, 2, 2]))
        return f'{var} {op} "{" ".join(vals)}"'
    v = rng.choice(pool)
    if reversed_ok and rng.random() < 0.2:
        return f'"{v}" {op} {var}'
    return f'{var} {op} "{v}"'


def gen_group(rng: random.Random, var: str) -> str:
    """A same-variable ==-disjunction or !=-conjunction (the library keeps these as atom groups)."""
    pool = STRING_VARS.get(var) or (EXTRA_NAMES if var == "extra" else None)
    if pool is None:
        return gen_atom(rng, var)
    vals = rng.sample(pool, min(len(pool), rng.choice([2, 2, 3])))
    if rng.random() < 0.5:
        return "(" + " or ".join(f'{var} == "{v}"' for v in vals) + ")"
    return "(" + " and ".join(f'{var} != "{v}"' for v in vals) + ")"


_POOL: dict = {"atoms": None}


def set_atom_pool(rng: random.Random, variables: list[str], k: int = 5):
    """Sessions draw their atoms from a small pool so that operands SHARE atoms (common factors are
    where union_simplify / intersect_simplify / cnf / dnf do their work)."""
    _POOL["atoms"] = [gen_atom(rng, rng.choice(variables)) for _ in range(k)]


def gen_marker(rng: random.Random, variables: list[str], depth: int) -> str:
    if _POOL["atoms"] and depth == 0 and rng.random() < 0.8:
        return rng.choice(_POOL["atoms"])
    if rng.random() < 0.18:
        cands = [v for v in variables if v in STRING_VARS or v == "extra"]
        if cands:
            return gen_group(rng, rng.choice(cands))
    if depth == 0 or rng.random() < 0.25:
        return gen_atom(rng, rng.choice(variables))
    k = rng.choice([2, 2, 3])
    conn = rng.choice([" and ", " or "])
    parts = []
    for _ in range(k):
        sub = gen_marker(rng, variables, depth - 1)
        if (" and " in sub or " or " in sub) and (rng.random() < 0.8 or conn == " and "):
            sub = f"({sub})"
        parts.append(sub)
    return conn.join(parts)


# --------------------------------------------------------------------------- environment grid
def _ver_tuple(text: str):
    try:
        parts = [int(p) for p in text.strip().replace(".*", "").split(".")]
    except ValueError:
        return None
    return tuple((parts + [0, 0, 0])[:3]) if 1 <= len(parts) <= 3 else None


def _version_points(literals: set[str], rng: random.Random, cap: int = 14) -> list[str]:
    pts = set()
    import re
    for lit in literals:
        for tok in re.split(r"[,\s]+", lit):
            toks = {tok}
            # substrings that are themselves version-like (PEP 508 `in` is substring containment)
            for i in range(len(tok)):
                for j in range(i + 1, len(tok) + 1):
                    if re.fullmatch(r"\d+(\.\d+){0,2}", tok[i:j]):
                        toks.add(tok[i:j])
            for t in toks:
                b = _ver_tuple(t)
                if b is None:
                    continue
                x, y, z = b
                for c in (b, (x, y, z + 1), (x, y + 1, 0), (x + 1, 0, 0), (x, y, z - 1) if z > 0 else ((x, y - 1, 99) if y > 0 else (max(x - 1, 0), 99, 0))):
                    pts.add(c)
    pts.add((0, 1, 0))
    pts.add((99, 0, 0))
    pts = sorted(pts)
    if len(pts) > cap:
        keep = set(rng.sample(pts, cap))
        pts = sorted(keep)
    return [f"{x}.{y}.{z}" for x, y, z in pts]


def _string_points(literals: set[str], cap: int = 7) -> list[str]:
    import re
    pts = ["", "zzz"]
    for lit in sorted(literals):
        for tok in [lit] + re.split(r"[,\s]+", lit):
            if tok and tok not in pts:
                pts.append(tok)
            if len(tok) > 3 and tok[:3] not in pts:
                pts.append(tok[:3])
    return pts[:cap + 2]


def _extra_points(names: set[str]) -> list[list[str]]:
    ns = sorted(names)
    pts: list[list[str]] = [[], ["zzz"]]
    for n in ns:
        pts.append([n])
    for a, b in itertools.combinations(ns, 2):
        pts.append([a, b])
    return pts[:10]


def atoms_of(text: str):
    """(variable, literal) pairs mentioned in a marker text."""
    import re
    out = []
    for m in re.finditer(r'(\w+)\s*(?:===|==|!=|<=|>=|<|>|~=|not in|in)\s*"([^"]*)"|"([^"]*)"\s*(?:===|==|!=|<=|>=|<|>|~=|not in|in)\s*(\w+)', text):
        if m.group(1):
            out.append((m.group(1), m.group(2)))
        else:
            out.append((m.group(4), m.group(3)))
    return out


def build_grid(texts: list[str], rng: random.Random, cap: int = 96):
    lits: dict[str, set[str]] = {}
    for t in texts:
        for var, lit in atoms_of(t):
            lits.setdefault(var, set()).add(lit)
    axes: list[tuple[str, list]] = []
    pyl = lits.get("python_version", set()) | lits.get("python_full_version", set())
    if pyl:
        axes.append(("python_full_version", _version_points(pyl, rng)))
    if "platform_release" in lits:
        axes.append(("platform_release", _version_points(lits["platform_release"], rng, cap=8)))
    for var in STRING_VARS:
        if var in lits:
            axes.append((var, _string_points(lits[var])))
    if "extra" in lits:
        axes.append(("extra", _extra_points(lits["extra"])))
    for var in MEMBER_VARS:
        if var in lits:
            axes.append((var, _extra_points(lits[var])[:6]))
    total = 1
    for _, pts in axes:
        total *= len(pts)
    complete = total <= cap
    if complete:
        combos = list(itertools.product(*[pts for _, pts in axes]))
    else:
        combos = list({tuple(rng.choice(pts) if not isinstance(pts[0], list) else tuple(rng.choice(pts)) for _, pts in axes) for _ in range(cap * 2)})[:cap]
    envs = []
    for combo in combos:
        env = {}
        for (var, _), val in zip(axes, combo):
            if var == "extra" or var in MEMBER_VARS:
                env[var] = list(val)
            else:
                env[var] = val
        if "python_full_version" in env:
            env["python_version"] = ".".join(env["python_full_version"].split(".")[:2])
        envs.append(env)
    if not envs:
        envs = [{}]
    return envs, complete, [v for v, _ in axes]


BASE_ENV = {
    "implementation_name": "cpython", "implementation_version": "3.11.4", "os_name": "posix", "platform_machine": "x86_64",
    "platform_release": "5.15.0", "platform_system": "Linux", "platform_version": "#1 SMP", "python_full_version": "3.11.4",
    "platform_python_implementation": "CPython", "python_version": "3.11", "sys_platform": "linux", "extra": "",
}


def real_env(env: dict) -> dict:
    e = dict(BASE_ENV)
    for k, v in env.items():
        e[k] = set(v) if (k == "extra" or k in MEMBER_VARS) else v
    return e


def context_of(env: dict) -> str:
    return "lock_file" if any(k in env for k in MEMBER_VARS) else "metadata"


def reference_table(text: str, envs: list[dict]) -> list[bool]:
    """packaging's verdict per environment; [] when packaging cannot express an environment
    (it has no multi-valued `extra`)."""
    if any(len(e.get("extra", [])) > 1 for e in envs):
        return []
    try:
        pm = PkgMarker(text)
        out = []
        for e in envs:
            env = dict(BASE_ENV)
            for k, v in e.items():
                env[k] = (v[0] if v else "") if k == "extra" else set(v) if k in MEMBER_VARS else v
            out.append(bool(pm.evaluate(env, context=context_of(e))))
        return out
    except Exception:  # noqa: BLE001
        return []


def table_of(m, envs: list[dict]) -> list[bool]:
    return [bool(m.evaluate(real_env(e), context=context_of(e))) for e in envs]


# --------------------------------------------------------------------------- projection
def _key(m) -> str:
    try:
        return str(m)
    except Exception as e:  # noqa: BLE001
        return f"<str raised {type(e).__name__} {id(m)}>"


def shape_of(m) -> dict:
    if isinstance(m, EmptyMarker):
        return {"k": "empty", "key": "<empty>", "n": 0, "nd": 0, "ch": []}
    if isinstance(m, AnyMarker):
        return {"k": "any", "key": "", "n": 0, "nd": 0, "ch": []}
    if isinstance(m, MarkerExpression):
        return {"k": "atom", "key": _key(m), "n": 1, "nd": 1, "ch": []}
    if isinstance(m, EqualityMarkerUnion):
        return {"k": "eqgroup", "key": _key(m), "n": len(list(m.values)), "nd": len(set(m.values)), "ch": []}
    if isinstance(m, InequalityMultiMarker):
        return {"k": "negroup", "key": _key(m), "n": len(list(m.values)), "nd": len(set(m.values)), "ch": []}
    if isinstance(m, MultiMarker):
        return {"k": "and", "key": _key(m), "n": len(m.markers), "nd": len(m.markers), "ch": [shape_of(c) for c in m.markers]}
    if isinstance(m, MarkerUnion):
        return {"k": "or", "key": _key(m), "n": len(m.markers), "nd": len(m.markers), "ch": [shape_of(c) for c in m.markers]}
    return {"k": "other:" + type(m).__name__, "key": _key(m), "n": 0, "nd": 0, "ch": []}


def vars_of(m) -> set[str]:
    if isinstance(m, (MultiMarker, MarkerUnion)):
        out: set[str] = set()
        for c in m.markers:
            out |= vars_of(c)
        return out
    name = getattr(m, "name", None)
    return {name} if name else set()


def shape_summary(sh: dict) -> str:
    if sh["k"] in ("and", "or"):
        return sh["k"] + str(len(sh["ch"]))
    return sh["k"]


# --------------------------------------------------------------------------- session
class MSession:
    def __init__(self, sid: int, seed: int):
        self.sid, self.seed = sid, seed
        self.objs: list = []
        self.raw: list[dict] = []
        self.dead = False
        self.texts: list[str] = []

    def _push(self, ev: dict, obj):
        if ev["exc"].endswith("Timeout"):
            ev["exc"] = "Timeout"          # whatever step ran out of time: no verdict (performance is not a property)
        self.raw.append(ev)
        self.objs.append(obj)
        if ev["exc"]:
            self.dead = True
            return None
        return len(self.raw)

    def parse(self, text: str):
        if self.dead:          # the session ended at its first exception; nothing further is recorded
            return None
        self.texts.append(text)
        obj, exc = timed(parse_marker, text)
        return self._push({"op": "parse", "a": 0, "b": 0, "text": text, "exc": exc, "names": []}, obj)

    def binop(self, op: str, a: int, b: int):
        if self.dead or a is None or b is None:          # the session ended at its first exception; nothing further is recorded
            return None
        x, y = self.objs[a - 1], self.objs[b - 1]
        obj, exc = timed((lambda: x & y) if op == "and" else (lambda: x | y))
        return self._push({"op": op, "a": a, "b": b, "text": "", "exc": exc, "names": []}, obj)

    def reparse(self, a: int):
        if self.dead or a is None:          # the session ended at its first exception; nothing further is recorded
            return None
        x = self.objs[a - 1]
        text, exc = timed(str, x)
        if exc:
            return self._push({"op": "reparse", "a": a, "b": 0, "text": "", "exc": "str:" + exc, "names": []}, None)
        obj, exc = timed(parse_marker, text)
        if exc:
            exc = "parse:" + exc
        try:
            PkgMarker(text)
            acc = True
        except (PkgInvalidMarker, Exception):  # noqa: BLE001
            acc = False
        return self._push({"op": "reparse", "a": a, "b": 0, "text": text, "exc": exc, "names": [], "pkg_accepts": acc,
                           "has_empty_token": "<empty>" in text}, obj)

    def project(self, op: str, a: int, names: list[str]):
        if self.dead or a is None:          # the session ended at its first exception; nothing further is recorded
            return None
        x = self.objs[a - 1]
        if op == "only":
            obj, exc = timed(lambda: x.only(*names))
        elif op == "exclude":
            obj, exc = timed(lambda: x.exclude(names[0]))
        else:
            obj, exc = timed(lambda: x.without_extras())
        return self._push({"op": op, "a": a, "b": 0, "text": "", "exc": exc, "names": names}, obj)

    def law(self, name: str, a: int, b: int, pid: str = "C14"):
        if self.dead or a is None or b is None:          # the session ended at its first exception; nothing further is recorded
            return None
        return self._push({"op": "law", "a": a, "b": b, "text": "", "exc": "", "names": [], "law": name, "law_pid": pid}, None)

    def finish(self, grid_seed: int) -> dict:
        rng = random.Random(grid_seed)
        envs, complete, axes = build_grid(self.texts, rng)
        events = []
        for i, (ev, obj) in enumerate(zip(self.raw, self.objs)):
            full = {"op": ev["op"], "a": ev["a"], "b": ev["b"], "text": ev["text"], "exc": ev["exc"], "names": ev["names"],
                    "table": [], "ref": [], "shape": {"k": "empty", "key": "", "n": 0, "nd": 0, "ch": []}, "vars": [], "is_empty": False, "is_any": False,
                    "eq": [], "eq_rev": [], "eq_self": True, "hash_eq": [], "pkg_accepts": ev.get("pkg_accepts", True),
                    "has_empty_token": ev.get("has_empty_token", False), "law": ev.get("law", ""), "law_pid": ev.get("law_pid", "C14"), "str": ""}
            if obj is not None:
                try:
                    tab, exc = timed(table_of, obj, envs, secs=10.0)
                    if exc:
                        full["exc"] = "Timeout" if exc == "Timeout" else "evaluate:" + exc
                    else:
                        full["table"] = tab
                        if ev["op"] == "parse" and ev["text"] not in ("", "<empty>"):
                            full["ref"] = reference_table(ev["text"], envs)
                        full["shape"] = shape_of(obj)
                        full["vars"] = sorted(vars_of(obj))
                        full["is_empty"] = bool(obj.is_empty())
                        full["is_any"] = bool(obj.is_any())
                        full["str"] = _key(obj)
                        full["eq_self"] = bool(obj == obj)
                        for j in range(i):
                            other = self.objs[j]
                            if other is None or events[j]["exc"]:
                                continue
                            if obj == other:
                                full["eq"].append(j + 1)
                            if other == obj:
                                full["eq_rev"].append(j + 1)
                            if hash(obj) == hash(other):
                                full["hash_eq"].append(j + 1)
                except Exception as e:  # noqa: BLE001
                    full["exc"] = "observe:" + type(e).__name__
            events.append(full)
            if full["exc"]:
                break      # the session ends at the first exception / timeout
        return {"sid": self.sid, "seed": self.seed, "grid_seed": grid_seed, "envs": envs, "grid_complete": complete,
                "axes": axes, "events": events}


def pick_vars(rng: random.Random) -> list[str]:
    pools = [["python_version", "python_full_version"], ["python_version", "python_full_version", "sys_platform"],
             ["sys_platform", "os_name"], ["python_version", "extra", "sys_platform"], ["platform_release", "platform_machine"],
             ["python_full_version", "extra"], ["sys_platform", "platform_machine", "implementation_name"], ["python_version", "os_name", "extra"],
             ["extra", "sys_platform"], ["platform_system", "sys_platform", "python_version"],
             ["extras", "sys_platform"], ["extras", "dependency_groups", "os_name"], ["dependency_groups", "python_version"]]
    return rng.choice(pools)


def random_session(sid: int, seed: int, length: int = 24) -> dict:
    rng = random.Random(seed)
    s = MSession(sid, seed)
    variables = pick_vars(rng)
    if rng.random() < 0.2:
        # focus: most atoms on ONE string variable (==, !=, in, not in, groups with overlapping values) plus a guard
        # variable - the same-variable tables are then reached from inside cnf / dnf / re-parsing, not only directly
        v = rng.choice(list(STRING_VARS))
        w = rng.choice([x for x in list(STRING_VARS) + ["python_version", "extra"] if x != v])
        variables = [v, v, v, w]
    set_atom_pool(rng, variables, rng.choice([4, 5, 6]))
    variables = sorted(set(variables))
    live = []
    neutral: list = []

    def followups(r):
        """Every new result is rendered and re-parsed (C07); compound ones are also projected (C12)."""
        if r is None or s.dead:
            return
        s.reparse(r)
        if s.dead:
            return
        obj = s.objs[r - 1]
        mentioned = sorted(vars_of(obj)) if obj is not None else []
        if mentioned and rng.random() < 0.7:
            # remove a variable the result really mentions (and sometimes one it does not)
            v = rng.choice(mentioned) if rng.random() < 0.85 else rng.choice(variables)
            if v == "extra" and rng.random() < 0.5:
                s.project("without_extras", r, ["extra"])
            else:
                s.project("exclude", r, [v])
        if not s.dead and rng.random() < 0.35:
            s.project("only", r, rng.sample(variables, rng.randint(1, len(variables))))
        # neutral / absorbing operands in both positions: results must not keep them inside
        if not s.dead and neutral and rng.random() < 0.35:
            e, a = neutral
            which = rng.choice(["or_e", "e_or", "and_a", "a_and"])
            nr = {"or_e": lambda: s.binop("or", r, e), "e_or": lambda: s.binop("or", e, r),
                  "and_a": lambda: s.binop("and", r, a), "a_and": lambda: s.binop("and", a, r)}[which]()
            if nr is not None and not s.dead:
                s.reparse(nr)

    for _ in range(rng.randint(2, 3)):
        r = s.parse(gen_marker(rng, variables, rng.choice([0, 1, 1, 2])))
        if r is None:
            return s.finish(seed + 1)
        live.append(r)
        followups(r)
    if not s.dead:
        e, a = s.parse("<empty>"), s.parse("")
        if e is not None and a is not None:
            neutral.extend([e, a])
            if rng.random() < 0.15:
                live.append(rng.choice([e, a]))
    while len(s.raw) < length and not s.dead:
        x = rng.random()
        a = rng.choice(live)
        # operands that share structure with each other are where simplification is busiest
        b = rng.choice(live[-3:]) if rng.random() < 0.5 else rng.choice(live)
        if x < 0.5:
            r = s.binop("and", a, b)
        else:
            r = s.binop("or", a, b)
        if r is None:
            break
        live.append(r)
        followups(r)
    return s.finish(seed + 1)


MLAWS = ["and_comm", "or_comm", "and_assoc", "or_assoc", "and_idem", "or_idem", "absorb1", "absorb2", "distrib1", "distrib2"]


def law_session(sid: int, seed: int) -> dict:
    rng = random.Random(seed)
    s = MSession(sid, seed)
    variables = pick_vars(rng)
    if rng.random() < 0.3:
        # focus: the three operands mostly speak about ONE string variable (==, !=, in, not in, groups), so the laws
        # exercise the same-variable tables: absorption and distributivity fail when & and | disagree about one pair
        v = rng.choice(list(STRING_VARS))
        variables = [v, v, v, rng.choice([x for x in list(STRING_VARS) + ["python_version"] if x != v])]
    set_atom_pool(rng, variables, 4)
    variables = sorted(set(variables))
    regs = []
    texts = [gen_marker(rng, variables, rng.choice([0, 1, 1])) for _ in range(3)]
    if rng.random() < 0.3:
        # a and b cut a HOLE out of one version variable (`v < lo`, `v >= hi`): their union is re-rendered by the
        # specifier layer (`!= X.Y.*`, `!= V`), their parts recombine under distributivity / absorption
        var = rng.choice(["python_full_version", "python_full_version", "python_version", "platform_release"])
        from packaging.version import Version
        lo, hi = sorted(rng.sample(VERSION_VARS[var], 2), key=Version)
        texts[0] = f'{var} {rng.choice(["<", "<", "<="])} "{lo}"'
        texts[1] = f'{var} {rng.choice([">=", ">=", ">"])} "{hi}"'
        if rng.random() < 0.5:
            texts[2] = gen_atom(rng, var, reversed_ok=False)
    for t in texts:
        r = s.parse(t)
        if r is None:
            return s.finish(seed + 1)
        regs.append(r)
    a, b, c = regs
    AND = lambda x, y: s.binop("and", x, y)  # noqa: E731
    OR = lambda x, y: s.binop("or", x, y)    # noqa: E731
    for name in rng.sample(MLAWS, 3):
        if s.dead:
            break
        try:
            l_, r_ = {
                "and_comm": lambda: (AND(a, b), AND(b, a)), "or_comm": lambda: (OR(a, b), OR(b, a)),
                "and_assoc": lambda: (AND(AND(a, b), c), AND(a, AND(b, c))), "or_assoc": lambda: (OR(OR(a, b), c), OR(a, OR(b, c))),
                "and_idem": lambda: (AND(a, a), a), "or_idem": lambda: (OR(a, a), a),
                "absorb1": lambda: (AND(a, OR(a, b)), a), "absorb2": lambda: (OR(a, AND(a, b)), a),
                "distrib1": lambda: (AND(a, OR(b, c)), OR(AND(a, b), AND(a, c))), "distrib2": lambda: (OR(a, AND(b, c)), AND(OR(a, b), OR(a, c))),
            }[name]()
        except TypeError:
            break
        if l_ is None or r_ is None or s.dead:
            break
        s.law(name, l_, r_)
    return s.finish(seed + 1)


def blowup_session(sid: int, seed: int) -> dict:
    """Operands whose normal forms are LARGER than what was written: (a and b or a and c) | (d and e or d and f) over
    six different variables.  union() then keeps the un-normalised candidate; neutral and absorbing operands, and
    operands sharing a branch with it, are combined with that result and everything is rendered and re-parsed."""
    rng = random.Random(seed)
    s = MSession(sid, seed)
    names = rng.sample(["os_name", "sys_platform", "platform_machine", "implementation_name", "platform_system", "python_version", "extra"], 6)
    set_atom_pool(rng, names, 0)
    _POOL["atoms"] = None
    atoms = [gen_atom(rng, v, reversed_ok=False) for v in names]
    regs = [s.parse(t) for t in atoms]
    E, A = s.parse("<empty>"), s.parse("")
    if None in regs or None in (E, A) or s.dead:
        return s.finish(seed + 1)
    a, b, c, d, e, f = regs

    def factored(x, y, z):
        xy, xz = s.binop("and", x, y), (None if s.dead else s.binop("and", x, z))
        return None if (xy is None or xz is None or s.dead) else s.binop("or", xy, xz)
    m1 = factored(a, b, c)
    m2 = None if (m1 is None or s.dead) else factored(d, e, f)
    if m1 is None or m2 is None or s.dead:
        return s.finish(seed + 1)
    m3 = s.binop("or", m1, m2)
    if m3 is None or s.dead:
        return s.finish(seed + 1)
    s.reparse(m3)
    steps = [("or", m3, E), ("or", E, m3), ("and", m3, A), ("and", A, m3), ("or", m3, m1), ("and", m3, m2), ("and", m3, E), ("or", m3, A)]
    rng.shuffle(steps)
    for op, x, y in steps:
        if s.dead:
            break
        r = s.binop(op, x, y)
        if r is not None and not s.dead:
            s.reparse(r)
    if not s.dead:
        s.project("exclude", m3, [names[0]])
    out = s.finish(seed + 1)
    out["session_kind"] = "blowup"
    return out


REFLECT = {"<": ">", "<=": ">=", ">": "<", ">=": "<=", "==": "==", "!=": "!="}


def clear_caches():
    from dep_logic import utils as dl_utils
    from dep_logic.markers import single as dl_single
    import dep_logic.markers as dl_markers
    for fn in (dl_markers.parse_marker, dl_single._merge_single_markers, dl_utils.cnf, dl_utils.dnf):
        try:
            fn.cache_clear()
        except AttributeError:
            pass


def _group_interchange(s: "MSession", rng: random.Random, seed: int) -> dict:
    """Two ==-groups (or !=-groups) with the same values in different orders compare equal (OrderedSet equality ignores
    order); they must be interchangeable against a partner - in particular one whose values EXTEND theirs."""
    var = rng.choice(list(STRING_VARS))
    pool = STRING_VARS[var]
    vals = rng.sample(pool, min(len(pool), rng.choice([2, 2, 3])))
    other = vals[:]
    while other == vals:
        rng.shuffle(other)
    eq = rng.random() < 0.6

    def group(vs):
        return " or ".join(f'{var} == "{v}"' for v in vs) if eq else " and ".join(f'{var} != "{v}"' for v in vs)
    rest = [v for v in pool if v not in vals]
    ext = vals + rng.sample(rest, min(len(rest), rng.choice([1, 1, 2]))) if rest else vals
    k_text = rng.choice([group(ext), group(ext[::-1]), group(other[:1] + ext[len(vals):] if len(ext) > len(vals) else ext),
                         f'({group(ext)}) {rng.choice(["and", "or"])} {gen_atom(rng, rng.choice([x for x in STRING_VARS if x != var]), reversed_ok=False)}'])
    clear_caches()
    m1, m2, k = s.parse(group(vals)), s.parse(group(other)), s.parse(k_text)
    if None in (m1, m2, k) or s.dead:
        return s.finish(seed + 1)
    for name, fn in (("interchange_or", lambda x: s.binop("or", x, k)), ("interchange_and", lambda x: s.binop("and", x, k)),
                     ("interchange_ror", lambda x: s.binop("or", k, x)), ("interchange_rand", lambda x: s.binop("and", k, x))):
        clear_caches()
        r1 = fn(m1)
        clear_caches()
        r2 = fn(m2) if r1 is not None else None
        if r1 is None or r2 is None or s.dead:
            break
        s.law(name, r1, r2, pid="C13")
    clear_caches()
    return s.finish(seed + 1)


def interchange_session(sid: int, seed: int) -> dict:
    """C13: objects that compare equal are interchangeable as operands.  Two spellings of one atom
    (literal on the right / on the left) are combined with the same third marker; the memo caches
    are emptied in between so that the second result is really computed from the second object."""
    rng = random.Random(seed)
    s = MSession(sid, seed)
    if rng.random() < 0.3:
        return _group_interchange(s, rng, seed)
    var = rng.choice(["python_version", "python_full_version", "platform_release", "sys_platform", "os_name"])
    pool = VERSION_VARS.get(var) or STRING_VARS[var]
    # ordering operators on string variables are plain string comparisons (valid PEP 508, evaluated the same way by
    # packaging); they only appear here, where two spellings of one atom are compared, never in the algebra sessions
    op = rng.choice(["<", "<=", ">", ">=", "==", "!="] if (var in VERSION_VARS or rng.random() < 0.5) else ["==", "!="])
    v = rng.choice(pool)
    t1, t2 = f'{var} {op} "{v}"', f'"{v}" {REFLECT[op]} {var}'
    partner_vars = ["python_version", "python_full_version"] if var.startswith("python") else [var]
    k_text = gen_marker(rng, partner_vars + [rng.choice(["sys_platform", "extra"])], rng.choice([0, 0, 1]))
    clear_caches()
    m1, m2, k = s.parse(t1), s.parse(t2), s.parse(k_text)
    if None in (m1, m2, k) or s.dead:
        return s.finish(seed + 1)
    for name, fn in (("interchange_and", lambda x: s.binop("and", x, k)), ("interchange_or", lambda x: s.binop("or", x, k)),
                     ("interchange_rand", lambda x: s.binop("and", k, x))):
        clear_caches()
        r1 = fn(m1)
        clear_caches()
        r2 = fn(m2) if r1 is not None else None
        if r1 is None or r2 is None or s.dead:
            break
        s.law(name, r1, r2, pid="C13")
    clear_caches()
    return s.finish(seed + 1)


def projection_session(sid: int, seed: int) -> dict:
    """C12: projections bring together same-variable parts that guards on OTHER variables kept apart while parsing.
    Each branch is (atom or ==/!= group on V) joined with (a guard on W); the branches are joined by or / and, as text
    and through the operators; only / exclude / without_extras then drop the guards, and the atom-group tables
    (EqualityMarkerUnion / InequalityMultiMarker / MarkerExpression |, &) do the merging."""
    rng = random.Random(seed)
    s = MSession(sid, seed)
    strings = list(STRING_VARS)
    v = rng.choice(strings + strings + ["python_version", "python_version", "extra"])
    w = rng.choice([x for x in strings + ["python_version", "extra", "extra"] if x != v])
    _POOL["atoms"] = None
    inner, outer = rng.choice([(" and ", " or "), (" and ", " or "), (" or ", " and ")])
    branches = []
    # a marker on a third variable shared by every branch: once the guards are gone, union_simplify / intersect_simplify
    # factor it out, and the parts on V that remain may cancel (empty intersection / universal union)
    others = [x for x in strings if x not in (v, w)]
    shared = gen_group(rng, rng.choice(others)) if rng.random() < 0.25 else gen_atom(rng, rng.choice(others), reversed_ok=False) if rng.random() < 0.35 else None
    for _ in range(rng.choice([2, 2, 3])):
        pv = rng.choice(["python_version", "python_full_version"]) if v == "python_version" else v      # the two python variables merge
        part = gen_group(rng, pv) if rng.random() < 0.6 else gen_atom(rng, pv, reversed_ok=(v == "python_version"))
        guard = gen_atom(rng, w, reversed_ok=False)
        pair = [part, guard] if rng.random() < 0.7 else [guard, part]
        if shared is not None:
            pair.insert(rng.randint(0, 2), shared)
        branches.append("(" + inner.join(pair) + ")")
    whole = s.parse(outer.join(branches))
    regs = [whole] if whole is not None else []
    if not s.dead and rng.random() < 0.6:
        parts = [s.parse(b) for b in branches]
        if None not in parts and not s.dead:
            acc = parts[0]
            for q in parts[1:]:
                acc = s.binop("or" if outer == " or " else "and", acc, q) if acc is not None else None
            if acc is not None:
                regs.append(acc)
    for r in regs:
        if s.dead:
            break
        vs = ["python_version", "python_full_version"] if v == "python_version" else [v]
        for op, names in (("only", vs), ("exclude", [w]), ("only", [w]), ("exclude", [v]), ("only", vs + [w])):
            if s.dead:
                break
            pr = s.project(op, r, names)
            if pr is not None and not s.dead:
                s.reparse(pr)
        if "extra" in (v, w) and not s.dead:
            s.project("without_extras", r, ["extra"])
    return s.finish(seed + 1)


# --------------------------------------------------------------------------- scripted sessions
# Fixed operation sequences that once exposed a defect (known_findings.json, "fixed"), recorded and validated like every
# other session: a regression shows up as the same clause again.  Steps: (result, op, operands...).
SCRIPTS: list[tuple[str, list[tuple]]] = [
    ("or-with-1-child via exclude (d85fbe4)", [
        ("C", "parse", 'sys_platform == "linux" or sys_platform == "darwin"'), ("D", "parse", 'platform_machine == "arm64" or implementation_name == "pypy"'),
        ("A", "parse", 'os_name == "nt"'), ("B", "parse", 'os_name == "posix"'), ("F", "parse", 'python_version >= "3.8"'), ("G", "parse", 'python_version < "3.8"'),
        ("X", "and", "C", "D"), ("AF", "or", "A", "F"), ("BG", "or", "B", "G"), ("Y1", "and", "AF", "BG"), ("Y", "and", "Y1", "D"),
        ("M", "or", "X", "Y"), ("R", "exclude", "M", ["python_version"]), ("Rt", "reparse", "R"),
        ("M2", "or", "Y", "X"), ("R2", "exclude", "M2", ["python_version"]), ("R2t", "reparse", "R2"),
        ("R3", "only", "M", ["sys_platform", "platform_machine", "implementation_name", "os_name"]), ("R3t", "reparse", "R3")]),
    ("or-with-1-child via without_extras (d85fbe4)", [
        ("C", "parse", 'sys_platform == "linux" or sys_platform == "darwin"'), ("D", "parse", 'platform_machine == "arm64" or implementation_name == "pypy"'),
        ("A", "parse", 'os_name == "nt"'), ("B", "parse", 'os_name == "posix"'), ("F", "parse", 'extra == "foo"'), ("G", "parse", 'extra != "foo"'),
        ("X", "and", "C", "D"), ("AF", "or", "A", "F"), ("BG", "or", "B", "G"), ("Y1", "and", "AF", "BG"), ("Y", "and", "Y1", "D"),
        ("M", "or", "X", "Y"), ("R", "without_extras", "M", ["extra"]), ("Rt", "reparse", "R"), ("R2", "exclude", "M", ["extra"])]),
    ("and-with-1-child (f9a81a3)", [
        ("P", "parse", 'os_name == "nt" and sys_platform == "win32" or os_name == "nt" and sys_platform != "win32"'), ("Pt", "reparse", "P"),
        ("a", "parse", 'os_name == "nt"'), ("x", "parse", 'sys_platform == "win32"'), ("nx", "parse", 'sys_platform != "win32"'),
        ("ax", "and", "a", "x"), ("anx", "and", "a", "nx"), ("U", "or", "ax", "anx"), ("Ut", "reparse", "U"),
        ("g", "parse", 'os_name == "nt" and sys_platform == "win32" and extra == "foo" or os_name == "nt" and sys_platform != "win32" and extra == "bar"'),
        ("W", "without_extras", "g", ["extra"]), ("Wt", "reparse", "W"), ("O", "only", "g", ["os_name", "sys_platform"])]),
    ("version merges (9eb786d, 90673b9, 1f6b13e, 6e97fe3, 3861054)", [
        ("e1", "parse", 'os_name == "nt" or os_name == "posix"'), ("e2", "parse", 'os_name != "nt"'), ("e", "or", "e1", "e2"),
        ("f1", "parse", 'python_full_version >= "3.10"'), ("f2", "parse", 'python_full_version ~= "3.10"'), ("f", "and", "f1", "f2"), ("ft", "reparse", "f"),
        ("g1", "parse", 'python_full_version <= "3.9"'), ("g2", "parse", 'python_version <= "3"'), ("g", "and", "g1", "g2"),
        ("h1", "parse", 'python_version != "3.8.0"'), ("h2", "parse", 'python_full_version < "3.8.1"'), ("h", "or", "h1", "h2"),
        ("i1", "parse", 'python_version ~= "3.7.0"'), ("i2", "parse", 'python_full_version != "3.10.*"'), ("i", "or", "i1", "i2"), ("it", "reparse", "i"),
        ("j", "parse", '"3.8" <= python_version'), ("jt", "reparse", "j")]),
    # shapes that three seeded changes needed and that only a neighbouring property's exhaustive replay contained
    ("projection merges a one-segment python_version operand with python_full_version (seeded C12-r5-A)", [
        ("m", "parse", 'python_version > "3" and os_name == "posix" or python_full_version >= "3.6.1" and os_name == "nt"'),
        ("o", "only", "m", ["python_version", "python_full_version"]), ("x", "exclude", "m", ["os_name"]), ("ot", "reparse", "o"),
        ("m2", "parse", 'python_version <= "3" and os_name == "posix" or python_full_version < "3.6.1" and os_name == "nt"'),
        ("o2", "only", "m2", ["python_version", "python_full_version"]), ("x2", "exclude", "m2", ["os_name"])]),
    ("a conjunctive union result whose text re-parses through group & in-atom (seeded C07-r4-A)", [
        ("x", "parse", 'sys_platform != "win32" and sys_platform != "darwin" and os_name == "nt"'),
        ("w", "parse", 'sys_platform != "win32" and sys_platform != "darwin" and platform_machine == "arm64"'),
        ("y", "parse", 'sys_platform != "darwin" and sys_platform in "darwin linux"'),
        ("xw", "or", "x", "w"), ("m", "or", "xw", "y"), ("mt", "reparse", "m"), ("wy", "or", "w", "y"), ("m2", "or", "x", "wy"), ("m2t", "reparse", "m2")]),
    ("distributivity over a hole whose upper edge has a patch level (seeded C14-r4-B)", [
        ("a", "parse", 'python_full_version < "3.7.0"'), ("b", "parse", 'python_full_version >= "3.8.5"'), ("c", "parse", 'python_full_version >= "3.8.1"'),
        ("ab", "or", "a", "b"), ("l", "and", "c", "ab"), ("ca", "and", "c", "a"), ("cb", "and", "c", "b"), ("r", "or", "ca", "cb"),
        ("law1", "law", "distrib1", "l", "r"),
        ("a2", "parse", 'python_version < "3.7"'), ("b2", "parse", 'python_full_version >= "3.8.2"'), ("ab2", "or", "a2", "b2"),
        ("l2", "and", "c", "ab2"), ("ca2", "and", "c", "a2"), ("cb2", "and", "c", "b2"), ("r2", "or", "ca2", "cb2"), ("law2", "law", "distrib1", "l2", "r2")]),
]


def _atom_var(text: str) -> str:
    return re.match(r"\w+", text).group(0)


def cnf_projection_scripts() -> list[tuple[str, list[tuple]]]:
    """A generated family (round-6 seeds C07 / C12 / C15 were all missed for want of it): markers in CONJUNCTIVE shape -
    which parse_marker and & never return, only | does when the conjunctive candidate is the smaller one - put through
    exclude / only / without_extras for every variable, each result re-parsed.  F1: m | m for a conjunction of
    two-member clauses; F2: (a & c) | (a & d) factored to a & (c | d), united with a further atom on either side;
    F3: a conjunction of a common atom and two four-member clauses sharing two members, united with common & member."""
    V = {"pv1": 'python_version < "3.7"', "pv2": 'python_version < "3.10"', "pv3": 'python_version >= "3.10"', "os": 'os_name == "a"',
         "sp": 'sys_platform == "linux"', "im": 'implementation_name == "cpython"', "pm1": 'platform_machine == "x1"',
         "pm2": 'platform_machine == "x2"', "ex": 'extra == "x"', "ey": 'extra == "y"', "r1": 'platform_release >= "5"',
         "r2": 'platform_release < "5"', "ps": 'platform_system == "x"'}
    out: list[tuple[str, list[tuple]]] = []

    def projections(steps, reg, variables):
        variables = sorted(set(variables))
        for v in variables:
            steps += [(f"x_{v}", "exclude", reg, [v]), (f"xt_{v}", "reparse", f"x_{v}"),
                      (f"o_{v}", "only", reg, [w for w in variables if w != v]), (f"ot_{v}", "reparse", f"o_{v}"),
                      (f"k_{v}", "only", reg, [v])]
        if "extra" in variables:
            steps += [("w", "without_extras", reg, ["extra"]), ("wt", "reparse", "w")]

    f1 = [[("pv1", "ex"), ("pv3", "ey"), ("sp", "im")], [("pv1", "ex"), ("pv2", "ey")], [("os", "ex"), ("os", "sp"), ("pv3", "im")],
          [("pv1", "r1"), ("pv2", "r2")], [("os", "pm1"), ("os", "pm2"), ("sp", "ex")], [("pm1", "ex"), ("pm2", "ey")],
          [("pv1", "os"), ("pv3", "os")], [("ex", "sp"), ("ey", "sp"), ("pv1", "im")]]
    for cl in f1:
        src = " and ".join(f"({V[p]} or {V[q]})" for p, q in cl)
        steps = [("m", "parse", src), ("M", "or", "m", "m"), ("Mt", "reparse", "M")]
        projections(steps, "M", [_atom_var(V[k]) for pq in cl for k in pq])
        out.append((f"F1 self-union of {src}", steps))
    for a in ("os", "pv1"):
        for c, d in (("pm1", "im"), ("pm1", "pm2"), ("ex", "im"), ("r1", "r2")):
            for x in ("ps", "sp", "ex"):
                if x in (c, d):
                    continue
                steps = [("ac", "parse", f"{V[a]} and {V[c]}"), ("ad", "parse", f"{V[a]} and {V[d]}"), ("x", "parse", V[x]),
                         ("fac", "or", "ac", "ad"), ("M1", "or", "fac", "x"), ("M2", "or", "x", "fac"), ("M1t", "reparse", "M1")]
                vs = [_atom_var(V[k]) for k in (a, c, d, x)]
                projections(steps, "M1", vs)
                steps += [("y_" + v, "exclude", "M2", [v]) for v in sorted(set(vs))] + [("p2", "only", "M2", sorted({_atom_var(V[a]), _atom_var(V[x])}))]
                out.append((f"F2 factored union {a},{c},{d} with {x}", steps))
    V["pv8"] = 'python_version >= "3.8"'
    for common in (("pv3",), ("im",), ("pv8", "ps", "im"), ("ps", "im", "ex")):      # three common conjuncts: the conjunctive form wins
        for (e, f) in (("r1", "r2"), ("ex", "ey"), ("pv1", "pv2")):
            if (e == "pv1" and any(c.startswith("pv") for c in common)) or (e == "ex" and "ex" in common):
                continue
            cm = " and ".join(V[c] for c in common)
            big = f"{cm} and ({V['os']} or {V['sp']} or {V['pm1']} or {V[e]}) and ({V['os']} or {V['sp']} or {V['pm2']} or {V[f]})"
            steps = [("m", "parse", big), ("n", "parse", f"{cm} and {V['os']}"), ("u", "or", "m", "n"), ("ut", "reparse", "u")]
            projections(steps, "u", [_atom_var(V[k]) for k in (*common, "os", "sp", "pm1", e)])
            out.append((f"F3 shared members {','.join(common)},{e},{f}", steps))
    return out


def scripted_sessions() -> list[dict]:
    out = []
    for k, (_, steps) in enumerate(SCRIPTS + cnf_projection_scripts()):
        s = MSession(0, 7000 + k)
        reg: dict[str, int | None] = {}
        for st in steps:
            name, op = st[0], st[1]
            if s.dead:
                break
            if op == "parse":
                reg[name] = s.parse(st[2])
            elif op in ("and", "or"):
                reg[name] = s.binop(op, reg.get(st[2]), reg.get(st[3]))
            elif op == "reparse":
                reg[name] = s.reparse(reg.get(st[2]))
            elif op == "law":
                if reg.get(st[3]) is not None and reg.get(st[4]) is not None:
                    s.law(st[2], reg[st[3]], reg[st[4]])
            else:
                reg[name] = s.project(op, reg.get(st[2]), st[3]) if reg.get(st[2]) is not None else None
        out.append(s.finish(7000 + k))
    return out


def make_batch(args) -> list[dict]:
    seed, n_random, n_law = args
    out = []
    for k in range(n_random):
        out.append(random_session(0, seed * 1000003 + k))
    for k in range(n_law):
        if k % 4 == 3:
            out.append(interchange_session(0, seed * 1000037 + 700000 + k))
        elif k % 4 == 1:
            out.append(blowup_session(0, seed * 1000039 + 900000 + k))
        elif k % 4 == 2:
            out.append(projection_session(0, seed * 1000041 + 1100000 + k))
        else:
            out.append(law_session(0, seed * 1000033 + 500000 + k))
    return out
