"""B3 driver: run random sessions on the REAL version-specifier objects, log one event per public
call, for validation by specs/SpecSessionTrace.tla.  Also the generators of specifier texts.
"""
from __future__ import annotations

import random

from packaging.specifiers import SpecifierSet
from packaging.version import Version

from dep_logic.specifiers import (AnySpecifier, EmptySpecifier, RangeSpecifier, UnionSpecifier,
                                  parse_version_specifier)

from . import spec_iface

E_SHAPE = {"k": "empty", "rs": []}


# --------------------------------------------------------------------------- text generators
def gen_version(rng: random.Random, *, epoch_ok=True, suffix_ok=True) -> str:
    n = rng.choice([1, 2, 2, 3, 3, 4])
    rel = [rng.choice([0, 1, 2, 3, 9, 10]) for _ in range(n)]
    if rel[0] == 0 and rng.random() < 0.7:
        rel[0] = rng.choice([1, 2, 3])
    s = ".".join(map(str, rel))
    if epoch_ok and rng.random() < 0.1:
        s = f"{rng.randint(1, 2)}!" + s
    if suffix_ok:
        if rng.random() < 0.2:
            s += rng.choice(["a", "b", "rc"]) + str(rng.randint(0, 2))
        if rng.random() < 0.15:
            s += f".post{rng.randint(0, 2)}"
        if rng.random() < 0.15:
            s += f".dev{rng.randint(0, 2)}"
    return s


def neighbours(v: str, rng: random.Random) -> list[str]:
    """Versions that coincide with / touch v: other spellings and adjacent releases."""
    V = Version(v)
    rel = list(V.release)
    out = [v, V.base_version, ".".join(map(str, rel + [0])), ".".join(map(str, rel[:-1] + [rel[-1] + 1]))]
    if len(rel) > 1:
        out.append(".".join(map(str, rel[:-2] + [rel[-2] + 1])))
        out.append(".".join(map(str, rel[:-2] + [rel[-2] + 1, 0])))
    out.append(V.base_version + ".post1")
    out.append(V.base_version + "rc1")
    if V.epoch:
        out = [f"{V.epoch}!{x}" if "!" not in x else x for x in out]
    return out


def make_pool(rng: random.Random, k: int = 3, **kw) -> list[str]:
    pool = []
    for _ in range(k):
        v = gen_version(rng, **kw)
        pool.append(v)
        if rng.random() < 0.8:
            pool.append(rng.choice(neighbours(v, rng)))
    return pool


def gen_clause(rng: random.Random, pool: list[str], *, risky=False) -> str:
    """One PEP 440 clause over the session's version pool.  risky=True also generates the textual
    shapes whose translation is known to be fragile (epochs / unusual pre-post spellings in ~= and
    wildcard clauses); those are valid PEP 440 and inside C04/C17's quantifier."""
    op = rng.choice([">", ">=", "<", "<=", "==", "!=", "~=", "==*", "!=*", ">=", "<"])
    v = rng.choice(pool)
    V = Version(v)
    if op in ("==*", "!=*"):
        rel = list(V.release)
        k = rng.randint(1, len(rel))
        base = ".".join(map(str, rel[:k]))
        if V.epoch and risky:
            base = f"{V.epoch}!{base}"
        return f"{op[:2]}{base}.*"
    if op == "~=":
        if len(V.release) < 2:
            v = v.split("!")[-1]
            V = Version(v)
            if len(V.release) < 2:
                v = V.base_version + ".0" + v[len(V.base_version):] if v.startswith(V.base_version) else V.base_version + ".0"
                V = Version(v)
        if V.epoch and not risky:
            v = v.split("!", 1)[1]
        return f"~={v}"
    return f"{op}{v}"


def gen_leaf(rng: random.Random, pool: list[str], *, risky=False, alternatives=True) -> str:
    if alternatives and rng.random() < 0.12:
        # a hand-written `||` text (the parser folds the alternatives with |): touching, overlapping, out of order
        if rng.random() < 0.4:
            v = rng.choice(pool)
            lo_op, hi_op = rng.choice([("<", ">="), ("<=", ">"), ("<=", ">="), ("<", ">")])
            alts = [f"{lo_op}{v}", f"{hi_op}{v}"]
            if rng.random() < 0.5:
                alts.reverse()
            if rng.random() < 0.3:
                alts.append(gen_leaf(rng, pool, risky=risky, alternatives=False))
        else:
            alts = [gen_leaf(rng, pool, risky=risky, alternatives=False) for _ in range(rng.choice([2, 2, 3]))]
        return "||".join(alts)
    n = rng.choice([1, 1, 1, 2, 2, 3])
    return ",".join(gen_clause(rng, pool, risky=risky) for _ in range(n))


# --------------------------------------------------------------------------- session recording
def _bounds_of(obj):
    if isinstance(obj, RangeSpecifier):
        return [b for b in (obj.min, obj.max) if b is not None]
    if isinstance(obj, UnionSpecifier):
        out = []
        for r in obj.ranges:
            out += _bounds_of(r)
        return out
    return []


def candidates_for(bounds: list[Version], cap: int = 40) -> list[str]:
    c: dict[Version, str] = {}

    def add(rel):
        if rel and all(x >= 0 for x in rel):
            s = ".".join(map(str, rel))
            c.setdefault(Version(s), s)

    for b in bounds:
        rel = list(b.release)
        ep = b.epoch
        for r in (rel, rel + [0], rel + [1], rel[:-1] + [rel[-1] + 1], rel[:-1] + [rel[-1] - 1], [rel[0] + 1], rel[:1],
                  rel[:2], rel[:-1] + [rel[-1] + 1, 0]):
            if ep:
                s = f"{ep}!" + ".".join(map(str, r)) if r and all(x >= 0 for x in r) else None
                if s:
                    c.setdefault(Version(s), s)
            add(r)
    add([0])
    add([99])
    keys = sorted(c)
    if len(keys) > cap:
        step = len(keys) / cap
        keys = [keys[int(i * step)] for i in range(cap)]
    return [c[k] for k in keys]


class Session:
    """Runs operations on real objects and records events."""

    def __init__(self, sid: int, seed: int):
        self.sid, self.seed = sid, seed
        self.objs: list = []          # real result per event (None for law events / exceptions)
        self.raw: list[dict] = []     # partially filled events
        self.dead = False

    # each op returns the register index (1-based) or None when the session died
    def _push(self, ev: dict, obj):
        self.raw.append(ev)
        self.objs.append(obj)
        if ev["exc"]:
            self.dead = True
            return None
        return len(self.raw)

    def parse(self, text: str):
        if self.dead:          # the session ended at its first exception; nothing further is recorded
            return None
        try:
            obj = parse_version_specifier(text)
            exc = ""
        except Exception as e:  # noqa: BLE001 - every exception class is logged
            obj, exc = None, type(e).__name__
        return self._push({"op": "parse", "a": 0, "b": 0, "text": text, "exc": exc}, obj)

    def binop(self, op: str, a: int, b: int):
        if self.dead or a is None or b is None:          # the session ended at its first exception; nothing further is recorded
            return None
        x, y = self.objs[a - 1], self.objs[b - 1]
        try:
            obj = (x & y) if op == "and" else (x | y)
            exc = ""
        except Exception as e:  # noqa: BLE001
            obj, exc = None, type(e).__name__
        return self._push({"op": op, "a": a, "b": b, "text": "", "exc": exc}, obj)

    def invert(self, a: int):
        if self.dead or a is None:          # the session ended at its first exception; nothing further is recorded
            return None
        try:
            obj = ~self.objs[a - 1]
            exc = ""
        except Exception as e:  # noqa: BLE001
            obj, exc = None, type(e).__name__
        return self._push({"op": "not", "a": a, "b": 0, "text": "", "exc": exc}, obj)

    def reparse(self, a: int):
        if self.dead or a is None:          # the session ended at its first exception; nothing further is recorded
            return None
        x = self.objs[a - 1]
        text = ""
        try:
            text = str(x)
            obj = parse_version_specifier(text)
            exc = ""
        except Exception as e:  # noqa: BLE001
            obj, exc = None, ("str:" if not text and not isinstance(x, AnySpecifier) else "parse:") + type(e).__name__
        return self._push({"op": "reparse", "a": a, "b": 0, "text": text, "exc": exc}, obj)

    def law(self, name: str, a: int, b: int):
        if self.dead or a is None or b is None:          # the session ended at its first exception; nothing further is recorded
            return None
        x, y = self.objs[a - 1], self.objs[b - 1]
        try:
            ev = {"op": "law", "a": a, "b": b, "text": "", "exc": "", "law": name,
                  "law_eq": bool(x == y), "law_eq_rev": bool(y == x), "law_hash": hash(x) == hash(y)}
        except Exception as e:  # noqa: BLE001
            ev = {"op": "law", "a": a, "b": b, "text": "", "exc": type(e).__name__, "law": name}
        return self._push(ev, None)

    # ------------------------------------------------------------------ finalisation
    def finish(self, leaf_oracle=True) -> dict:
        bounds: dict[Version, None] = {}
        for o in self.objs:
            for b in _bounds_of(o):
                bounds[b] = None
        pts = sorted(bounds)
        index = {v: i + 1 for i, v in enumerate(pts)}
        cands = candidates_for(pts)
        events = []
        for i, (ev, obj) in enumerate(zip(self.raw, self.objs)):
            full = {"op": ev["op"], "a": ev["a"], "b": ev["b"], "text": ev["text"], "exc": ev["exc"],
                    "shape": E_SHAPE, "is_empty": False, "is_any": False, "eq": [], "eq_rev": [], "eq_self": True,
                    "hash_eq": [], "cand": [], "cand_contains": [], "leaf_ref": [], "eq_orig": True,
                    "law": ev.get("law", ""), "law_eq": ev.get("law_eq", True), "law_eq_rev": ev.get("law_eq_rev", True),
                    "law_hash": ev.get("law_hash", True)}
            if obj is not None:
                full["shape"] = _project(obj, index)
                full["is_empty"] = bool(obj.is_empty())
                full["is_any"] = bool(obj.is_any())
                full["eq_self"] = bool(obj == obj)
                for j in range(i):
                    other = self.objs[j]
                    if other is None:
                        continue
                    if obj == other:
                        full["eq"].append(j + 1)
                    if other == obj:
                        full["eq_rev"].append(j + 1)
                    if hash(obj) == hash(other):
                        full["hash_eq"].append(j + 1)
                try:
                    full["cand"] = [bool(c in obj) for c in cands]
                    full["cand_contains"] = [bool(obj.contains(c)) if hasattr(obj, "contains") else bool(c in obj) for c in cands]
                except Exception as e:  # noqa: BLE001
                    full["exc"] = "in:" + type(e).__name__
                if ev["op"] == "parse" and leaf_oracle:
                    # a leaf is a comma set or `||`-joined comma sets: packaging's verdict per alternative, or-ed
                    alts = [SpecifierSet(a) for a in ev["text"].split("||") if a != "<empty>"]
                    full["leaf_ref"] = [any(bool(ss.contains(c, prereleases=True)) for ss in alts) for c in cands]
                if ev["op"] == "reparse":
                    orig = self.objs[ev["a"] - 1]
                    full["eq_orig"] = bool(obj == orig) and bool(orig == obj)
            events.append(full)
        return {"sid": self.sid, "seed": self.seed, "npts": len(pts), "points": [str(p) for p in pts],
                "ncand": len(cands), "cands": cands, "events": events}


def _project(obj, index) -> dict:
    def pr(r):
        return {"lo": index[r.min] if r.min is not None else 0, "hi": index[r.max] if r.max is not None else 0,
                "li": bool(r.include_min), "ui": bool(r.include_max)}
    if isinstance(obj, EmptySpecifier):
        return {"k": "empty", "rs": []}
    if isinstance(obj, AnySpecifier):
        return {"k": "any", "rs": []}
    if isinstance(obj, RangeSpecifier):
        return {"k": "range", "rs": [pr(obj)]}
    if isinstance(obj, UnionSpecifier):
        return {"k": "union", "rs": [pr(r) for r in obj.ranges]}
    return {"k": "other:" + type(obj).__name__, "rs": []}


# --------------------------------------------------------------------------- session scripts
LAWS = ["and_comm", "or_comm", "and_assoc", "or_assoc", "and_idem", "or_idem", "absorb1", "absorb2",
        "distrib1", "distrib2", "involution", "demorgan1", "demorgan2", "compl_and", "compl_or"]


def random_session(sid: int, seed: int, length: int = 12, risky=True) -> dict:
    rng = random.Random(seed)
    s = Session(sid, seed)
    pool = make_pool(rng, k=rng.choice([2, 3, 3, 4]), epoch_ok=True)
    # epochs: keep the pool on one epoch most of the time so that bounds interleave
    live: list[int] = []
    nleaves = rng.randint(2, 4)
    for _ in range(nleaves):
        t = rng.choice(["", "<empty>"]) if rng.random() < 0.06 else gen_leaf(rng, pool, risky=risky)
        r = s.parse(t)
        if r is None:
            return s.finish()
        live.append(r)
    while len(s.raw) < length and not s.dead:
        x = rng.random()
        if x < 0.36:
            r = s.binop("and", rng.choice(live), rng.choice(live))
        elif x < 0.72:
            r = s.binop("or", rng.choice(live), rng.choice(live))
        elif x < 0.87:
            r = s.invert(rng.choice(live))
        else:
            r = s.reparse(rng.choice(live))
        if r is None:
            break
        live.append(r)
    return s.finish()


def law_session(sid: int, seed: int, risky=True) -> dict:
    rng = random.Random(seed)
    s = Session(sid, seed)
    pool = make_pool(rng, k=rng.choice([2, 3]), epoch_ok=rng.random() < 0.3)
    regs = []
    for _ in range(3):
        # operands: a leaf, or a small combination of leaves (so unions / holes occur)
        r = s.parse(gen_leaf(rng, pool, risky=risky))
        if r is None:
            return s.finish()
        if rng.random() < 0.5:
            r2 = s.parse(gen_leaf(rng, pool, risky=risky))
            if r2 is None:
                return s.finish()
            r = s.binop(rng.choice(["and", "or"]), r, r2)
            if r is None:
                return s.finish()
        if rng.random() < 0.3:
            r = s.invert(r)
            if r is None:
                return s.finish()
        regs.append(r)
    a, b, c = regs
    AND = lambda x, y: s.binop("and", x, y)  # noqa: E731
    OR = lambda x, y: s.binop("or", x, y)    # noqa: E731
    NOT = s.invert
    names = rng.sample(LAWS, 4)
    for name in names:
        if s.dead:
            break
        try:
            if name == "and_comm":
                l_, r_ = AND(a, b), AND(b, a)
            elif name == "or_comm":
                l_, r_ = OR(a, b), OR(b, a)
            elif name == "and_assoc":
                l_, r_ = AND(AND(a, b), c), AND(a, AND(b, c))
            elif name == "or_assoc":
                l_, r_ = OR(OR(a, b), c), OR(a, OR(b, c))
            elif name == "and_idem":
                l_, r_ = AND(a, a), a
            elif name == "or_idem":
                l_, r_ = OR(a, a), a
            elif name == "absorb1":
                l_, r_ = AND(a, OR(a, b)), a
            elif name == "absorb2":
                l_, r_ = OR(a, AND(a, b)), a
            elif name == "distrib1":
                l_, r_ = AND(a, OR(b, c)), OR(AND(a, b), AND(a, c))
            elif name == "distrib2":
                l_, r_ = OR(a, AND(b, c)), AND(OR(a, b), OR(a, c))
            elif name == "involution":
                l_, r_ = NOT(NOT(a)), a
            elif name == "demorgan1":
                l_, r_ = NOT(AND(a, b)), OR(NOT(a), NOT(b))
            elif name == "demorgan2":
                l_, r_ = NOT(OR(a, b)), AND(NOT(a), NOT(b))
            elif name == "compl_and":
                l_, r_ = AND(a, NOT(a)), s.parse("<empty>")
            else:
                l_, r_ = OR(a, NOT(a)), s.parse("")
        except TypeError:
            break     # an operand register was None: the session died inside the script
        if l_ is None or r_ is None or s.dead:
            break
        s.law(name, l_, r_)
    return s.finish()


def twin_session(sid: int, seed: int) -> dict:
    """Two leaves that differ in ONE bound's spelling or by one suffix step (`2` / `2.0`, `2.0` / `2.0.post1`, `2.0` /
    `2.0rc1`, ...), each combined with the same partner by the same operations.  Anything that identifies the twins - a memo
    keyed by `Version` (which equates `2` and `2.0`), by the rendered text, by a hash that ignores a field - answers for one
    twin with the other's result; every event is validated against the specification as usual."""
    rng = random.Random(seed)
    s = Session(sid, seed)
    pool = make_pool(rng, k=2, epoch_ok=False)
    rel = [rng.choice([1, 2, 3, 9])] + [rng.choice([0, 0, 1, 2, 10]) for _ in range(rng.choice([0, 1, 1, 2]))]
    v = ".".join(map(str, rel))
    kind = rng.choice(["zero", "zero", "zero", "post", "post", "rc", "dev", "prezero"])
    if kind == "prezero":          # one pre-release in two spellings: 1.1a1 / 1.1.0a1
        suffix = rng.choice(["a1", "rc1", ".dev1"])
        v, w = v + suffix, v + ".0" + suffix
        kind = "pre"
    else:
        w = {"zero": v + ".0", "post": v + ".post1", "rc": v + "rc1", "dev": v + ".dev1"}[kind]
    if rng.random() < 0.1:
        v, w = "1!" + v, "1!" + w
    ops = ["<", "<=", ">", ">=", "==", "!="] + (["==*", "!=*", "==*", "!=*"] if kind == "zero" else []) + (["~=", "~="] if len(rel) >= 2 else [])
    op = rng.choice(ops)
    render_twins = rng.random() < 0.15

    def clause(o, x):
        return f"{o[:2]}{x}.*" if o.endswith("*") else f"{o}{x}"
    extra = ""
    if rng.random() < 0.5 and op in ("<", "<=", ">", ">=", "!=", "!=*"):
        lo = rng.choice(pool)
        extra = rng.choice([f">={lo},", f"<{lo},", f"!={lo},"])
    t1, t2 = extra + clause(op, v), extra + clause(op, w)
    if render_twins:
        # two different sets the library renders alike (the recorded `~=` rendering of a post-release upper bound):
        # [X.Y, (X+1).0) and [X.Y, (X+1).0.postN) both print as ~=X.Y
        x, y = rng.choice([1, 2, 3]), rng.choice([0, 2, 9])
        if rng.random() < 0.5:
            t1, t2 = f">={x}.{y},<{x + 1}.0", f">={x}.{y},<{x + 1}.0.post{rng.choice([0, 1])}"
        else:
            z = rng.choice([0, 1, 5])
            t1, t2 = f">={x}.{y}.{z},<{x}.{y + 1}.0", f">={x}.{y}.{z},<{x}.{y + 1}.0.post1"
        pool = pool + [f"{x}.{y}", f"{x + 1}.0"]
    if rng.random() < 0.5:
        t1, t2 = t2, t1
    if kind == "pre" and op in ("<", "<=") and not extra and rng.random() < 0.7:
        # the partner starts one step above the twins' release: the union is a hole with a pre-release edge
        nxt = rel[:-1] + [rel[-1] + 1]
        u = s.parse(">=" + ".".join(map(str, nxt + ([0] if rng.random() < 0.5 else []))))
    elif render_twins or rng.random() < 0.25:
        # the partner is a union (a hole): the twins meet UnionSpecifier's own operators
        a = rng.choice(pool)
        u = s.parse(rng.choice([f"!={a}", f"!={Version(a).base_version}.*", f"!={a},!={rng.choice(pool)}"]))
    else:
        u = s.parse(gen_leaf(rng, pool, risky=True))
    if u is not None and rng.random() < 0.6 and not render_twins:
        u2 = s.parse(gen_leaf(rng, pool, risky=True))
        u = s.binop(rng.choice(["or", "or", "and"]), u, u2) if u2 is not None else None
    p1, p2 = s.parse(t1), s.parse(t2)
    if None in (u, p1, p2) or s.dead:
        return s.finish()
    for o in (["or", "ror", "and", "not", "reparse"] if render_twins else rng.sample(["or", "and", "ror", "rand", "not", "reparse", "self"], 5)):
        for t in (p1, p2):
            if s.dead:
                break
            if o in ("or", "and"):
                r = s.binop(o, u, t)
            elif o in ("ror", "rand"):
                r = s.binop(o[1:], t, u)
            elif o == "not":
                r = s.invert(t)
            elif o == "reparse":
                r = s.reparse(t)
            else:
                r = s.binop(rng.choice(["or", "and"]), p1, p2) if t == p1 else s.binop("or", p2, p1)
            if r is not None and rng.random() < 0.4:
                s.reparse(r) if rng.random() < 0.5 else s.invert(r)
    return s.finish()


def make_batch(seed: int, n_random: int, n_law: int, risky=True) -> dict:
    sessions = []
    sid = 0
    for k in range(n_random):
        sid += 1
        if k % 5 == 4:
            sessions.append(twin_session(sid, seed * 1000007 + 300000 + k))
            continue
        sessions.append(random_session(sid, seed * 1000003 + k, risky=risky))
    for k in range(n_law):
        sid += 1
        sessions.append(law_session(sid, seed * 1000033 + 500000 + k, risky=risky))
    return {"kind": "spec", "sessions": sessions}
