"""Verdict bookkeeping shared by every check: violations, known findings, replay files, evidence."""
from __future__ import annotations

import json
import os
import sys
import time

VERIF = os.path.dirname(os.path.dirname(os.path.abspath(__file__)))
# a run against ANOTHER source tree (DEP_LOGIC_SRC: seeded changes, mutants, refactorings - the framework's own experiments)
# must not overwrite the evidence of the tree under verification
_OTHER_TREE = bool(os.environ.get("DEP_LOGIC_SRC")) and os.path.realpath(os.environ["DEP_LOGIC_SRC"]) != os.path.realpath("/repo/src")
EVIDENCE = os.path.join(VERIF, "evidence-scratch" if _OTHER_TREE else "evidence")
REPLAYS = os.path.join(VERIF, "replays-scratch" if _OTHER_TREE else "replays")
KNOWN = os.path.join(VERIF, "known_findings.json")

LEVELS = {"exploration", "fault_enumeration", "model_checking", "proof", "translation_validation", "other"}


def seed_from_env() -> int:
    try:
        return int(os.environ.get("VERIF_SEED", "0"))
    except ValueError:
        return 0


def load_known() -> dict:
    if not os.path.exists(KNOWN):
        return {"findings": [], "fixed": []}
    return json.load(open(KNOWN))


class Report:
    """Collects what one check run covered and found for ONE property."""
    current = None        # the report of this process (main() finishes it if the machinery fails after violations were recorded)

    def __init__(self, pid: str, tier: str, level: str = "model_checking"):
        assert level in LEVELS
        self.pid, self.tier, self.level = pid, tier, level
        self.seed = seed_from_env()
        self.t0 = time.time()
        self.cov: dict = {"samples": []}
        self.assumptions: list[str] = []
        self._viol: list[dict] = []          # every failing case for this property
        self.notes: list[str] = []
        self.counters: dict[str, int] = {}
        Report.current = self

    # ------------------------------------------------------------------ counting
    def count(self, key: str, n: int = 1):
        self.counters[key] = self.counters.get(key, 0) + n

    def sample(self, s, cap: int = 6):
        if len(self.cov["samples"]) < cap:
            self.cov["samples"].append(s)

    def set(self, **kw):
        self.cov.update(kw)

    def add(self, key: str, n: int):
        self.cov[key] = self.cov.get(key, 0) + n

    # ------------------------------------------------------------------ violations
    def violation(self, signature: str, detail: str, vector: dict):
        """Record a failing case. `signature` is the classifier output (DESIGN appendix B)."""
        self._viol.append({"signature": signature, "detail": detail, "vector": vector})

    def finish(self) -> int:
        # --replay <file>: engines without a dedicated single-vector replay re-run the quick exploration;
        # only the replayed signature is then reported (same verdict as re-running exactly that vector
        # whenever the vector is part of the deterministic exploration, which holds for all B1 engines)
        only = os.environ.get("VERIF_REPLAY_SIGNATURE")
        if only:
            self._viol = [v for v in self._viol if v["signature"] == only]
        known = load_known()
        listed = {f["signature"]: f for f in known.get("findings", []) if f.get("property") == self.pid}
        seen_known: dict[str, dict] = {}
        new: dict[str, dict] = {}
        for v in self._viol:
            if v["signature"] in listed:
                seen_known.setdefault(v["signature"], v)
            else:
                new.setdefault(v["signature"], v)
        os.makedirs(REPLAYS, exist_ok=True)
        os.makedirs(EVIDENCE, exist_ok=True)
        for sig in sorted(seen_known):
            print(f"KNOWN-FINDING: property={self.pid} {sig} :: {listed[sig].get('what', '')}")
        rc = 0
        for k, sig in enumerate(sorted(new)):
            v = new[sig]
            path = os.path.join(REPLAYS, f"{self.pid}-{k}.json")
            with open(path, "w") as f:
                json.dump({"property": self.pid, "signature": sig, "detail": v["detail"], "vector": v["vector"]}, f, indent=1, default=str)
            print(f"  {sig}: {v['detail']}")
            print(f"VIOLATION property={self.pid} replay={path}")
            rc = 1
        cov = dict(self.cov)
        cov.update(self.counters)
        cov["known_findings_seen"] = sorted(seen_known)
        cov["known_findings_not_seen"] = sorted(set(listed) - set(seen_known))
        cov["failing_cases_total"] = len(self._viol)
        if not cov.get("samples"):
            cov["samples"] = ["(no sample recorded)"]
        ev = {
            "property_id": self.pid, "tier": self.tier, "seed": self.seed, "level": self.level,
            "coverage": cov, "assumptions": self.assumptions,
            "wall_s": round(time.time() - self.t0, 2), "violations": len(new),
        }
        if self.notes:
            ev["coverage"]["notes"] = self.notes
        with open(os.path.join(EVIDENCE, f"{self.pid}.json"), "w") as f:
            json.dump(ev, f, indent=1, default=str)
        status = "OK" if rc == 0 else "VIOLATED"
        print(f"[{self.pid}] {status} tier={self.tier} wall={ev['wall_s']}s " +
              " ".join(f"{k}={v}" for k, v in cov.items() if isinstance(v, (int, bool)) and not isinstance(v, str)))
        return rc


def machinery_failure(pid: str, msg: str) -> int:
    print(f"[{pid}] MACHINERY FAILURE (exit 2, not a verdict): {msg}", file=sys.stderr)
    return 2
