"""./check dispatcher."""
from __future__ import annotations

import argparse
import os
import sys
import traceback


def main() -> int:
    ap = argparse.ArgumentParser()
    ap.add_argument("pid")
    ap.add_argument("--tier", default=os.environ.get("VERIF_TIER", "quick"), choices=["quick", "thorough"])
    ap.add_argument("--replay", default=None)
    a = ap.parse_args()
    from . import tla
    from .engine import machinery_failure
    if a.replay:
        import json
        try:
            os.environ["VERIF_REPLAY_SIGNATURE"] = json.load(open(a.replay))["signature"]
        except Exception as e:  # noqa: BLE001
            return machinery_failure(a.pid, f"cannot read replay file {a.replay}: {e!r}")
    try:
        mod = _engine_for(a.pid)
        if mod is None:
            return machinery_failure(a.pid, "no engine registered for this property")
        return mod.run(a.pid, a.tier, a.replay)
    except tla.MachineryError as e:
        return _after_failure(a.pid, str(e))
    except Exception:  # noqa: BLE001
        traceback.print_exc()
        return _after_failure(a.pid, "unexpected exception in the harness")


def _after_failure(pid: str, msg: str) -> int:
    """A later stage of the machinery failed.  Failing inputs already shown against the real code stand on their own:
    report them (exit 1); without any, the run is no verdict (exit 2)."""
    from .engine import Report, machinery_failure
    rep = Report.current
    if rep is not None and rep.pid == pid and rep._viol:
        print(f"[{pid}] a later stage failed ({msg.splitlines()[0][:200]}); reporting what was found before it", file=sys.stderr)
        rep.notes.append("run incomplete: " + msg.splitlines()[0][:300])
        rc = rep.finish()
        return rc if rc == 1 else machinery_failure(pid, msg)
    return machinery_failure(pid, msg)


def _engine_for(pid: str):
    import importlib
    table = {
        "C01": "check_interval", "C05": "check_interval", "C13": "check_interval", "C14": "check_interval",
        "C19": "check_generic",
        "C09": "check_platform",
        "C02": "check_marker", "C07": "check_marker", "C12": "check_marker", "C15": "check_marker",
        "C03": "check_markersem", "C11": "check_markersem",
        "C10": "check_memo",
        "C04": "check_pep440", "C06": "check_pep440", "C17": "check_pep440",
        "X01": "check_extra", "X02": "check_extra", "X03": "check_extra",
        "C08": "check_wheel", "C16": "check_wheel", "C18": "check_wheel",
    }
    name = table.get(pid)
    return importlib.import_module("harness." + name) if name else None


if __name__ == "__main__":
    sys.exit(main())
