"""Concretisation / projection for platforms and platform tags (specs/PlatformOps.tla shapes)."""
from __future__ import annotations

from dep_logic.tags import os as dl_os
from dep_logic.tags.platform import Arch, Platform


def render_tag(t: dict) -> str:
    f = t["f"]
    if f in ("manylinux", "musllinux", "macosx"):
        return f"{f}_{t['major']}_{t['minor']}_{t['x']}"
    if f in ("manylinux1", "manylinux2010", "manylinux2014", "linux"):
        return f"{f}_{t['x']}"
    return f  # win32 / win_amd64 / win_arm64 / any


def build_platform(c: dict) -> Platform:
    arch = Arch(c["arch"])
    if c["os"] == "manylinux":
        return Platform(dl_os.Manylinux(c["major"], c["minor"]), arch)
    if c["os"] == "musllinux":
        return Platform(dl_os.Musllinux(c["major"], c["minor"]), arch)
    if c["os"] == "macos":
        return Platform(dl_os.Macos(c["major"], c["minor"]), arch)
    if c["os"] == "windows":
        return Platform(dl_os.Windows(), arch)
    raise ValueError(c)


def render_name(tokens: list) -> str:
    return "_".join(str(t) for t in tokens)


def project_platform(p: Platform) -> dict:
    o = p.os
    if isinstance(o, dl_os.Manylinux):
        return {"os": "manylinux", "major": o.major, "minor": o.minor, "arch": p.arch.value}
    if isinstance(o, dl_os.Musllinux):
        return {"os": "musllinux", "major": o.major, "minor": o.minor, "arch": p.arch.value}
    if isinstance(o, dl_os.Macos):
        return {"os": "macos", "major": o.major, "minor": o.minor, "arch": p.arch.value}
    if isinstance(o, dl_os.Windows):
        return {"os": "windows", "major": 0, "minor": 0, "arch": p.arch.value}
    return {"os": type(o).__name__, "major": 0, "minor": 0, "arch": p.arch.value}


def cfg_key(c: dict) -> str:
    return f"{c['os']}_{c['major']}_{c['minor']}_{c['arch']}"


# --------------------------------------------------------------------------- packaging cross-check
def packaging_tags(c: dict) -> list[str] | None:
    """The platform tags packaging.tags generates for this configuration (probes stubbed);
    None where packaging offers no generator (Windows)."""
    from packaging import _manylinux, _musllinux, tags as ptags
    arch = c["arch"]
    if c["os"] == "manylinux":
        saved = (_manylinux._get_glibc_version, _manylinux._have_compatible_abi, _manylinux._get_manylinux_module)
        try:
            _manylinux._get_glibc_version = lambda: (c["major"], c["minor"])
            _manylinux._have_compatible_abi = lambda exe, archs: True
            _manylinux._get_manylinux_module = lambda: None
            out = list(_manylinux.platform_tags([arch]))
        finally:
            _manylinux._get_glibc_version, _manylinux._have_compatible_abi, _manylinux._get_manylinux_module = saved
        return out + [f"linux_{arch}"]
    if c["os"] == "musllinux":
        saved = _musllinux._get_musl_version
        try:
            _musllinux._get_musl_version = lambda exe: _musllinux._MuslVersion(c["major"], c["minor"])
            out = list(_musllinux.platform_tags([arch]))
        finally:
            _musllinux._get_musl_version = saved
        return out + [f"linux_{arch}"]
    if c["os"] == "macos":
        return list(ptags.mac_platforms((c["major"], c["minor"]), "arm64" if arch == "aarch64" else arch))
    return None
