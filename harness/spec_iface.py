"""Concretisation (abstract shape -> real specifier objects) and projection (real object -> shape)
for dep_logic version specifiers.  Shapes follow specs/IntervalOps.tla:
   value = {"k": "empty"|"any"|"range"|"union", "rs": [ {"lo","hi","li","ui"}, ... ]},  0 = None.
"""
from __future__ import annotations

import random

from packaging.version import Version

from dep_logic.specifiers import (AnySpecifier, EmptySpecifier, RangeSpecifier, UnionSpecifier,
                                  parse_version_specifier)

# --------------------------------------------------------------------------- embeddings
# Each embedding maps abstract points 1..N to strictly increasing real versions.  "alt" gives a
# second spelling of the *same* version (equal by PEP 440 padding/normalisation) used for operand b.
DENSE = ["1.0.dev1", "1.0a1", "1.0a1.post1", "1.0rc1", "1.0", "1.0.post1.dev1", "1.0.post1", "1.0.1"]
EPOCH = ["0!9", "1!0.dev0", "1!0", "1!0.post1", "1!1.0.1", "2!0", "2!0.0.1", "3!1"]
LENGTHS = ["1", "1.0.1", "1.1", "1.1.0.0.1", "2", "2.0.0.0.0.3", "10.0", "10.0.1"]
PLAIN = ["1.0", "2.0", "3.0", "4.0", "5.0", "6.0", "7.0", "8.0"]
# bounds around the shapes the renderer shortens (`~=X.Y`, `==X.*`, `!=X.*`): a series start, a point just inside the
# next series, the next series start ...: [1.2, 2.0) prints as ~=1.2, [1.2, 2.0.5) must not
COMPAT = ["1.2", "2.0", "2.0.5", "2.1", "3.0", "3.0.1", "3.1.0", "4"]
ALT_SPELLING = {"1": "1.0.0", "1.0": "1", "2": "2.0", "2.0": "2.0.0", "3.0": "3", "1.1": "1.1.0", "10.0": "10",
                "1.0rc1": "1.0c1", "1.0.post1": "1.0-1", "1.0a1": "1.0.0alpha1", "1!0": "1!0.0", "2!0": "2!0.0.0",
                "4.0": "4", "5.0": "5.0.0", "0!9": "9"}


def _check_increasing(vs):
    assert all(Version(a) < Version(b) for a, b in zip(vs, vs[1:])), vs


for _e in (DENSE, EPOCH, LENGTHS, PLAIN, COMPAT):
    _check_increasing(_e)


def random_version(rng: random.Random) -> str:
    rel = ".".join(str(rng.choice([0, 1, 2, 3, 9, 10, 11])) for _ in range(rng.randint(1, 4)))
    s = rel
    if rng.random() < 0.15:
        s = f"{rng.randint(1, 2)}!" + s
    if rng.random() < 0.25:
        s += rng.choice(["a", "b", "rc"]) + str(rng.randint(0, 2))
    if rng.random() < 0.2:
        s += f".post{rng.randint(0, 2)}"
    if rng.random() < 0.2:
        s += f".dev{rng.randint(0, 2)}"
    return s


def random_chain(rng: random.Random, n: int) -> list[str]:
    seen: dict[Version, str] = {}
    while len(seen) < n:
        v = random_version(rng)
        seen.setdefault(Version(v), v)
    return [seen[k] for k in sorted(seen)]


def embeddings(n: int, seed: int, extra_random: int = 1) -> list[dict]:
    rng = random.Random(seed * 7919 + n)
    out = []
    for name, pool in (("plain", PLAIN), ("dense", DENSE), ("epoch", EPOCH), ("lengths", LENGTHS), ("compat", COMPAT)):
        if name in ("dense", "epoch", "lengths") and n < len(pool):
            idx = sorted(rng.sample(range(len(pool)), n))
            if name == "dense" and n >= 3:
                # keep the neighbourhood around the final release 1.0 in play
                k = pool.index("1.0")
                if k not in idx:
                    idx[n // 2] = k
                    idx = sorted(set(idx))
                    while len(idx) < n:
                        idx = sorted(set(idx + [rng.randrange(len(pool))]))
            vs = [pool[i] for i in idx]
        else:
            vs = pool[:n]
        out.append({"name": name, "points": vs})
    for k in range(extra_random):
        out.append({"name": f"random{k}", "points": random_chain(rng, n)})
    for e in out:
        _check_increasing(e["points"])
        e["alt"] = [ALT_SPELLING.get(v, v) for v in e["points"]]
        assert all(Version(a) == Version(b) for a, b in zip(e["points"], e["alt"]))
    return out


# --------------------------------------------------------------------------- building
def build_range(r: dict, pts: list[str]):
    lo = Version(pts[r["lo"] - 1]) if r["lo"] else None
    hi = Version(pts[r["hi"] - 1]) if r["hi"] else None
    return RangeSpecifier(min=lo, max=hi, include_min=bool(r["li"]), include_max=bool(r["ui"]))


def build(v: dict, pts: list[str]):
    """Build the real object for an abstract value through the public constructors."""
    k = v["k"]
    if k == "empty":
        return EmptySpecifier()
    if k == "any":
        return AnySpecifier()
    if k == "range":
        return build_range(v["rs"][0], pts)
    return UnionSpecifier(tuple(build_range(r, pts) for r in v["rs"]))


def range_text(r: dict, pts: list[str]) -> str:
    parts = []
    if r["lo"]:
        parts.append((">=" if r["li"] else ">") + pts[r["lo"] - 1])
    if r["hi"]:
        parts.append(("<=" if r["ui"] else "<") + pts[r["hi"] - 1])
    return ",".join(parts)


def text_of(v: dict, pts: list[str]) -> str:
    """A specifier string (|| syntax for unions) whose parse should denote the abstract value."""
    k = v["k"]
    if k == "empty":
        return "<empty>"
    if k == "any":
        return ""
    return "||".join(range_text(r, pts) for r in v["rs"])


# --------------------------------------------------------------------------- projecting
class ProjectionError(Exception):
    pass


def _rank(ver, index: dict) -> int:
    if ver is None:
        return 0
    try:
        return index[ver]
    except KeyError:
        raise ProjectionError(f"bound {ver} is not one of the operands' bounds")


def project(obj, pts: list[str]) -> dict:
    """Structural projection of a real specifier ("read from the bounds")."""
    index = {Version(p): i + 1 for i, p in enumerate(pts)}
    if isinstance(obj, EmptySpecifier):
        return {"k": "empty", "rs": []}
    if isinstance(obj, AnySpecifier):
        return {"k": "any", "rs": []}
    if isinstance(obj, RangeSpecifier):
        return {"k": "range", "rs": [_prange(obj, index)]}
    if isinstance(obj, UnionSpecifier):
        return {"k": "union", "rs": [_prange(r, index) for r in obj.ranges]}
    raise ProjectionError(f"unexpected result class {type(obj).__name__}")


def _prange(r, index) -> dict:
    if not isinstance(r, RangeSpecifier):
        raise ProjectionError(f"union member of class {type(r).__name__}")
    return {"lo": _rank(r.min, index), "hi": _rank(r.max, index), "li": bool(r.include_min), "ui": bool(r.include_max)}


# --------------------------------------------------------------------------- python mirror of Den / Canonical
# (used only to CLASSIFY a mismatch against the specification's expected value into C01 vs C05;
#  the expected values themselves always come from TLC)
def den_range(r: dict, n: int) -> set[int]:
    out = set()
    for p in range(2 * n + 1):
        above = (not r["lo"]) or p > 2 * r["lo"] - 1 or (p == 2 * r["lo"] - 1 and r["li"])
        below = (not r["hi"]) or p < 2 * r["hi"] - 1 or (p == 2 * r["hi"] - 1 and r["ui"])
        if above and below:
            out.add(p)
    return out


def den(v: dict, n: int) -> set[int]:
    if v["k"] == "empty":
        return set()
    if v["k"] == "any":
        return set(range(2 * n + 1))
    out: set[int] = set()
    for r in v["rs"]:
        out |= den_range(r, n)
    return out


def norm_shape(v: dict) -> tuple:
    """Shape up to the two spellings of the universal set (AnySpecifier / RangeSpecifier()), which the
    property treats as one canonical value (they compare equal)."""
    if v["k"] == "range" and not v["rs"][0]["lo"] and not v["rs"][0]["hi"]:
        return ("any", ())
    return (v["k"], tuple((r["lo"], r["hi"], bool(r["li"]), bool(r["ui"])) for r in v["rs"]))
