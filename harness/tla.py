"""TLC runner and parser for TLA+ values (state dumps, -simulate files, PrintT output).

Stdlib only.  Exit-code convention of the whole framework (DESIGN.md section 4):
0 held, 1 violation, 2 machinery failure (raised here as MachineryError).
"""
from __future__ import annotations

import os
import re
import shutil
import subprocess
import tempfile
import time

VERIF = os.path.dirname(os.path.dirname(os.path.abspath(__file__)))
SPECS = os.path.join(VERIF, "specs")
TLA_CP = "/opt/veriftools/tla/tla2tools.jar:/opt/veriftools/tla/CommunityModules-deps.jar"


class MachineryError(Exception):
    """The verification machinery itself failed (never reported as a violation)."""


# --------------------------------------------------------------------------- values
class _P:
    __slots__ = ("s", "i", "n")

    def __init__(self, s: str, i: int = 0):
        self.s, self.i, self.n = s, i, len(s)

    def ws(self):
        s, i, n = self.s, self.i, self.n
        while i < n and s[i] in " \t\r\n":
            i += 1
        self.i = i

    def peek(self, k=1):
        return self.s[self.i:self.i + k]

    def expect(self, tok):
        self.ws()
        if not self.s.startswith(tok, self.i):
            raise ValueError(f"expected {tok!r} at {self.i}: {self.s[self.i:self.i+40]!r}")
        self.i += len(tok)

    def value(self):
        self.ws()
        s, i = self.s, self.i
        ch = s[i]
        if ch == '"':
            j = i + 1
            out = []
            while s[j] != '"':
                if s[j] == "\\":
                    j += 1
                    out.append({"n": "\n", "t": "\t"}.get(s[j], s[j]))
                else:
                    out.append(s[j])
                j += 1
            self.i = j + 1
            return "".join(out)
        if ch == "<" and s.startswith("<<", i):
            self.i += 2
            items = self._list(">>")
            return items
        if ch == "{":
            self.i += 1
            items = self._list("}")
            return frozenset(_freeze(x) for x in items)
        if ch == "[":
            self.i += 1
            rec = {}
            self.ws()
            if self.peek() == "]":
                self.i += 1
                return rec
            while True:
                self.ws()
                m = re.compile(r"[A-Za-z_][A-Za-z0-9_]*").match(s, self.i)
                key = m.group(0)
                self.i = m.end()
                self.expect("|->")
                rec[key] = self.value()
                self.ws()
                if self.peek() == ",":
                    self.i += 1
                    continue
                self.expect("]")
                return rec
        if ch == "(":
            # function  (k :> v @@ k :> v)
            self.i += 1
            fn = {}
            while True:
                k = self.value()
                self.expect(":>")
                v = self.value()
                fn[_freeze(k)] = v
                self.ws()
                if self.s.startswith("@@", self.i):
                    self.i += 2
                    continue
                self.expect(")")
                return fn
        m = re.compile(r"-?[0-9]+").match(s, i)
        if m:
            self.i = m.end()
            return int(m.group(0))
        m = re.compile(r"[A-Za-z_][A-Za-z0-9_]*").match(s, i)
        if m:
            self.i = m.end()
            w = m.group(0)
            if w == "TRUE":
                return True
            if w == "FALSE":
                return False
            return w  # model value
        raise ValueError(f"cannot parse TLA+ value at {i}: {s[i:i+40]!r}")

    def _list(self, close):
        items = []
        self.ws()
        if self.s.startswith(close, self.i):
            self.i += len(close)
            return items
        while True:
            items.append(self.value())
            self.ws()
            if self.peek() == ",":
                self.i += 1
                continue
            self.expect(close)
            return items


def _freeze(x):
    if isinstance(x, list):
        return tuple(_freeze(y) for y in x)
    if isinstance(x, dict):
        return tuple(sorted((k, _freeze(v)) for k, v in x.items()))
    return x


def parse_value(text: str):
    p = _P(text)
    v = p.value()
    p.ws()
    if p.i != p.n:
        raise ValueError(f"trailing text after TLA+ value: {text[p.i:p.i+40]!r}")
    return v


_VAR = re.compile(r"^/\\ ([A-Za-z_][A-Za-z0-9_]*) = ", re.M)


def parse_state_block(block: str) -> dict:
    """Parse '/\\ x = v /\\ y = w ...' (values may span lines) into a dict."""
    ms = list(_VAR.finditer(block))
    st = {}
    for k, m in enumerate(ms):
        end = ms[k + 1].start() if k + 1 < len(ms) else len(block)
        st[m.group(1)] = parse_value(block[m.end():end].strip())
    return st


def iter_dump(path: str):
    """Yield the states of a `tlc -dump` file as dicts."""
    with open(path) as f:
        block = []
        for line in f:
            if line.startswith("State "):
                if block:
                    yield parse_state_block("".join(block))
                block = []
            elif line.strip():
                block.append(line)
        if block:
            yield parse_state_block("".join(block))


def _parse_blocks(blocks):
    return [parse_state_block(b) for b in blocks]


def load_dump(path: str, procs: int = 16) -> list[dict]:
    """Parse a whole dump file, in parallel."""
    import multiprocessing as mp
    txt = open(path).read()
    blocks = [b.split("\n", 1)[1] for b in re.split(r"^State ", txt, flags=re.M)[1:]]
    if len(blocks) < 2000:
        return _parse_blocks(blocks)
    size = (len(blocks) + procs * 4 - 1) // (procs * 4)
    parts = [blocks[i:i + size] for i in range(0, len(blocks), size)]
    with mp.Pool(procs) as pool:
        out = []
        for r in pool.map(_parse_blocks, parts):
            out += r
    return out


_SIM_STATE = re.compile(r"^STATE_(\d+) ==\s*$", re.M)


def parse_sim_file(path: str) -> list[dict]:
    """Parse one behaviour file written by `tlc -simulate file=...` into a list of states."""
    txt = open(path).read()
    ms = list(_SIM_STATE.finditer(txt))
    out = []
    for k, m in enumerate(ms):
        end = ms[k + 1].start() if k + 1 < len(ms) else len(txt)
        body = txt[m.end():end]
        # cut trailing comment / separator lines
        body = "\n".join(l for l in body.splitlines() if not l.startswith("\\*") and not l.startswith("====") and not l.startswith("----"))
        out.append(parse_state_block(body))
    return out


# --------------------------------------------------------------------------- TLC
class TlcResult:
    def __init__(self):
        self.rc = None
        self.out = ""
        self.generated = 0
        self.distinct = 0
        self.violated = None      # name of violated invariant/property, if any
        self.error = None         # other error text
        self.wall = 0.0
        self.coverage = {}

    def ok(self):
        return self.violated is None and self.error is None


_STATS = re.compile(r"^(\d+) states generated, (\d+) distinct states found", re.M)
_INV = re.compile(r"Error: Invariant (\S+) is violated")
_PROP = re.compile(r"Error: (?:Action|Temporal) propert(?:y|ies) (\S*)")


def run_tlc(module: str, cfg: str, *, workers: int = 8, args: list[str] | None = None,
            timeout: int = 900, env: dict | None = None, cwd: str | None = None,
            heap: str = "3g", deque: bool = False) -> TlcResult:
    """Run TLC on specs/<module>.tla with the given cfg file (path or name inside specs/)."""
    cwd = cwd or SPECS
    meta = tempfile.mkdtemp(prefix="tlcmeta_")
    jopts = ["-Xmx" + heap, "-XX:+UseParallelGC", "-XX:ParallelGCThreads=4"]
    if deque:
        jopts.append("-Dtlc2.tool.queue.IStateQueue=StateDeque")
    cmd = ["java", *jopts, "-cp", TLA_CP, "tlc2.TLC", "-workers", str(workers), "-metadir", meta,
           "-noGenerateSpecTE", "-config", cfg, *(args or []), module]
    e = dict(os.environ)
    if env:
        e.update(env)
    r = TlcResult()
    t0 = time.time()
    try:
        p = subprocess.run(cmd, cwd=cwd, env=e, capture_output=True, text=True, timeout=timeout)
        r.rc, r.out = p.returncode, p.stdout + p.stderr
    except subprocess.TimeoutExpired as ex:
        r.rc, r.out = -9, (ex.stdout or b"").decode(errors="replace") if isinstance(ex.stdout, bytes) else (ex.stdout or "")
        r.error = f"TLC timed out after {timeout}s"
    finally:
        shutil.rmtree(meta, ignore_errors=True)
    r.wall = time.time() - t0
    ms = _STATS.findall(r.out)
    if ms:
        r.generated, r.distinct = int(ms[-1][0]), int(ms[-1][1])
    m = _INV.search(r.out)
    if m:
        r.violated = m.group(1)
    elif "is violated" in r.out:
        m = re.search(r"Error: (.*is violated.*)", r.out)
        r.violated = m.group(1) if m else "property"
    if r.error is None and r.violated is None:
        if "Model checking completed. No error has been found." not in r.out and "Finished in" not in r.out:
            r.error = "TLC did not complete"
        m = re.search(r"^Error: (.*)$", r.out, re.M)
        if m:
            r.error = m.group(1)
            # collect a little context
            i = r.out.find(m.group(0))
            r.error += " | " + " ".join(r.out[i:i + 600].split())
    return r


def require_ok(r: TlcResult, what: str):
    if r.error is not None:
        raise MachineryError(f"{what}: {r.error}\n{r.out[-1500:]}")


def printed_values(out: str, tag: str):
    """Extract values printed with PrintT(<<"tag", ...>>) from TLC output (bracket matching)."""
    res = []
    pat = re.compile(r'<<\s*"' + re.escape(tag) + '"')
    i = 0
    while True:
        m = pat.search(out, i)
        if not m:
            return res
        p = _P(out, m.start())
        try:
            res.append(p.value())
            i = p.i
        except Exception:
            i = m.end()


def has_null(o) -> bool:
    """JSON null cannot be read by the Json module: a recorded document containing one is malformed."""
    if o is None:
        return True
    if isinstance(o, dict):
        return any(has_null(v) for v in o.values())
    if isinstance(o, (list, tuple)):
        return any(has_null(v) for v in o)
    return False
