#!/bin/sh
# Offline setup: nothing to build; parse every specification module so a broken spec fails fast.
set -e
cd "$(dirname "$0")"
mkdir -p evidence replays
if [ -d specs ]; then
  cd specs
  for f in *.tla; do
    [ -f "$f" ] || continue
    out=$(tla-sany "$f" 2>&1) || { echo "$out"; echo "SANY failed on $f"; exit 1; }
  done
fi
echo setup ok
