#!/bin/sh
# Offline setup: nothing to build; parse every specification module so a broken spec fails fast.
set -e
cd "$(dirname "$0")"
mkdir -p evidence replays
for dir in specs specs/apalache; do
  [ -d "$dir" ] || continue
  ( cd "$dir"
    for f in *.tla; do
      [ -f "$f" ] || continue
      out=$(tla-sany "$f" 2>&1) || { echo "$out" | tail -20; echo "SANY failed on $dir/$f"; exit 1; }
    done ) || exit 1
done
/venv/bin/python -c "import dep_logic, packaging" || { echo "repository interpreter cannot import dep_logic"; exit 1; }
echo setup ok
