----------------------------- MODULE ArbitraryEq -----------------------------
(***************************************************************************)
(* `===V` (arbitrary equality) leaves inside the specifier algebra         *)
(* (dep_logic/specifiers/arbitrary.py), on top of IntervalOps.  C04:       *)
(* "expressions involving === leaves either satisfy the same equation or   *)
(* raise ValueError - they never return a wrong set".                      *)
(*                                                                         *)
(* `===` compares TEXT.  A candidate / target is [pt, sp]: the version at  *)
(* abstract point pt written in spelling sp (1: `1.0`, 2: `1.0.0` - equal  *)
(* versions, different strings); pt = 0 is a string that is no version.    *)
(* Ranges and unions see the version only.                                 *)
(*                                                                         *)
(* MEANING    DenC(x): the candidates x admits.                            *)
(* ALGORITHM  ArbAnd / ArbOr / ArbNot: the methods as written, with        *)
(*            Python's dispatch (`===a & range` and `range & ===a` both    *)
(*            reach ArbitrarySpecifier.__and__/__rand__); "raise" models   *)
(*            ValueError.                                                  *)
(***************************************************************************)
EXTENDS IntervalOps

Spellings == {1, 2}
Targets == { [pt |-> p, sp |-> s] : p \in Points, s \in Spellings } \cup { [pt |-> 0, sp |-> 1] }
Cands   == { [pt |-> p, sp |-> s] : p \in Points, s \in Spellings }
Arb(t)  == [k |-> "arb", rs |-> <<>>, t |-> t]
Raise   == [k |-> "raise", rs |-> <<>>]
Vals    == { CanonOf(D) : D \in SUBSET Probes }          \* every canonical interval value over N bounds

\* ----------------------------------------------------------------- MEANING
DenC(x) == IF x.k = "arb" THEN { c \in Cands : c = x.t }
           ELSE { c \in Cands : (2 * c.pt - 1) \in Den(x) }

\* --------------------------------------------------------------- ALGORITHM
\* `self.target in other`: other.contains(target) - a range parses the target as a version (ValueError when it is none),
\* another === leaf compares the two strings
TargetIn(t, other) ==
  IF other.k = "arb" THEN [raised |-> FALSE, v |-> other.t = t]
  ELSE IF t.pt = 0 THEN [raised |-> TRUE, v |-> FALSE]
  ELSE [raised |-> FALSE, v |-> (2 * t.pt - 1) \in Den(other)]
ArbIsEmpty(x) == x.k # "arb" /\ IsEmpty(x)
ArbIsAny(x)   == x.k # "arb" /\ IsAny(x)
ArbAnd(a, other) ==          \* a is the === leaf
  IF ArbIsEmpty(other) THEN other
  ELSE IF ArbIsAny(other) THEN a
  ELSE LET c == TargetIn(a.t, other) IN IF c.raised THEN Raise ELSE IF c.v THEN a ELSE E
ArbOr(a, other) ==
  IF ArbIsEmpty(other) THEN a
  ELSE IF ArbIsAny(other) THEN other
  ELSE LET c == TargetIn(a.t, other) IN IF ~c.raised /\ c.v THEN other ELSE Raise
ArbNot(a) == Raise

\* ----------------------------------------------------------- STATE MACHINE
VARIABLES a, b, op, res
avars == <<a, b, op, res>>
Init == a \in { Arb(t) : t \in Targets } /\ b \in Vals \cup { Arb(t) : t \in Targets } /\ op = "init" /\ res = E
Next == /\ op = "init"
        /\ \/ op' = "and" /\ res' = ArbAnd(a, b)        \* a & b  and  b & a  (reflected) take the same method
           \/ op' = "or"  /\ res' = ArbOr(a, b)
           \/ op' = "not" /\ res' = ArbNot(a)
        /\ UNCHANGED <<a, b>>
Spec == Init /\ [][Next]_avars

\* C04: a returned value is the exact set; anything else is a ValueError
ArbExact == res.k # "raise" =>
   /\ (op = "and" => DenC(res) = DenC(a) \cap DenC(b))
   /\ (op = "or"  => DenC(res) = DenC(a) \cup DenC(b))
\* where the answer is a plain set the method does answer (no spurious ValueError on the easy cases)
ArbTotalWhereSimple ==
   /\ (op = "and" /\ a.t.pt # 0 => res.k # "raise")
   /\ (op = "or" /\ (ArbIsEmpty(b) \/ ArbIsAny(b)) => res.k # "raise")
=============================================================================
