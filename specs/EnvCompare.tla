----------------------------- MODULE EnvCompare -----------------------------
(***************************************************************************)
(* EnvSpec.compare over all ordered pairs of environment specs of a small  *)
(* grid (requires_python family x platform-or-none x implementation-or-    *)
(* none), with the tag-set nesting of PlatformOps as the meaning (C16).    *)
(***************************************************************************)
EXTENDS WheelOps

CONSTANT PlatSel        \* platform configurations used in the grid
Impls == { [impl |-> "", ft |-> 0], [impl |-> "cp", ft |-> 0], [impl |-> "cp", ft |-> 1], [impl |-> "pp", ft |-> 0] }
EnvSpecs == { [rp |-> r, plat |-> p, impl |-> i.impl, ft |-> i.ft] : r \in RPFamily \cup {A}, p \in PlatSel \cup {NoPlat}, i \in Impls }

VARIABLES x, y, phase, obs
evars == <<x, y, phase, obs>>
CmpInit == x \in EnvSpecs /\ y \in EnvSpecs /\ phase = "pair" /\ obs = [cmp |-> "", rev |-> "", sub |-> FALSE, sup |-> FALSE]
CmpNext == /\ phase = "pair" /\ phase' = "cmp"
           /\ obs' = [cmp |-> Compare(x, y), rev |-> Compare(y, x),
                      sub |-> x.plat # NoPlat /\ y.plat # NoPlat /\ SeqSet(AlgoTags(x.plat)) \subseteq SeqSet(AlgoTags(y.plat)),
                      sup |-> x.plat # NoPlat /\ y.plat # NoPlat /\ SeqSet(AlgoTags(y.plat)) \subseteq SeqSet(AlgoTags(x.plat))]
           /\ UNCHANGED <<x, y>>
CmpSpec == CmpInit /\ [][CmpNext]_evars

\* C16: reflexive, symmetric on INCOMPATIBLE, never HIGHER both ways, nesting of platform tag sets
CompareLaws == phase = "cmp" =>
  /\ Compare(x, x) = "le"
  /\ (obs.cmp = "incompatible" <=> obs.rev = "incompatible")
  /\ ~(obs.cmp = "higher" /\ obs.rev = "higher")
  /\ (x.plat # NoPlat /\ y.plat # NoPlat /\ obs.cmp = "le" => obs.sub)
  /\ (x.plat # NoPlat /\ y.plat # NoPlat /\ obs.cmp = "higher" => obs.sup)
=============================================================================
