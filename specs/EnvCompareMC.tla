---------------------------- MODULE EnvCompareMC ----------------------------
EXTENDS EnvCompare
Inner2      == { <<3, 9, 5>>, <<3, 10, 2>> }
BoundsOne   == { <<3, 9, 0>> }
BoundsPair  == { <<3, 9, 0>>, <<3, 10, 2>> }
MinorsTiny  == {9}
PlatsQuick  == { Cfg("manylinux", 2, 17, "x86_64"), Cfg("manylinux", 2, 28, "x86_64"), Cfg("manylinux", 2, 17, "aarch64"),
                 Cfg("musllinux", 1, 1, "x86_64"), Cfg("musllinux", 1, 2, "x86_64"),
                 Cfg("macos", 10, 15, "x86_64"), Cfg("macos", 12, 0, "x86_64"), Cfg("macos", 12, 3, "x86_64"), Cfg("macos", 12, 0, "aarch64"),
                 Cfg("windows", 0, 0, "x86_64"), Cfg("windows", 0, 0, "x86") }
PlatsSmall  == { Cfg("manylinux", 2, 17, "x86_64"), Cfg("manylinux", 2, 28, "x86_64"), Cfg("manylinux", 2, 17, "aarch64"),
                 Cfg("musllinux", 1, 1, "x86_64"), Cfg("musllinux", 1, 2, "x86_64"),
                 Cfg("macos", 12, 0, "x86_64"), Cfg("macos", 12, 3, "x86_64"), Cfg("windows", 0, 0, "x86_64") }
=============================================================================
