----------------------------- MODULE EnvSpecView -----------------------------
(***************************************************************************)
(* Beyond the listed properties: the three "views" an EnvSpec offers of    *)
(* one target (dep_logic/tags/tags.py)                                     *)
(*    markers()            the partial PEP 508 environment of the target   *)
(*    _evaluate_python     which python/ABI tag pairs it accepts (C08)     *)
(*    as_dict / from_spec  its serialised form                             *)
(* and the coherence between them: a resolver uses markers() to evaluate   *)
(* dependency markers and compatibility() to pick wheels for the SAME      *)
(* target, so the two views must describe the same interpreter.            *)
(*                                                                         *)
(* MEANING   Pinned(rp): the requires_python set is one single version     *)
(*           (Den is one on-bound probe); TheVersion(rp) that version.     *)
(* ALGORITHM MarkersOf: transcription of EnvSpec.markers() - the test      *)
(*           `isinstance(RangeSpecifier) and min is not None and           *)
(*           min == max`, Platform.markers(), Implementation.capitalized;  *)
(*           AsDict / FromDict: as_dict() and from_spec of as_dict().      *)
(***************************************************************************)
EXTENDS WheelOps

CONSTANT PlatSel        \* platform configurations used in the grid

Views == { [rp |-> r, plat |-> p, set |-> s] : r \in RPFamily \cup {A, E}, p \in PlatSel \cup {NoPlat}, s \in Settings }

\* ----------------------------------------------------------------- MEANING
Pinned(r) == \E i \in 1..N : Den(r) = {2*i - 1}
TheVersion(r) == VGrid[CHOOSE i \in 1..N : Den(r) = {2*i - 1}]
ImplName(i) == CASE i = "cp" -> "cpython" [] i = "pp" -> "pypy" [] i = "pt" -> "pyston" [] OTHER -> ""
\* what platform.python_implementation() reports on that interpreter (PEP 508 platform_python_implementation)
ImplReported(i) == CASE i = "cp" -> "CPython" [] i = "pp" -> "PyPy" [] i = "pt" -> "Pyston" [] OTHER -> ""

\* --------------------------------------------------------------- ALGORITHM
NoVer == <<0, 0, 0>>
PinnedAlgo(r) == r.k = "range" /\ r.rs[1].lo # None /\ r.rs[1].lo = r.rs[1].hi
MarkersOf(e) ==
  LET pin == PinnedAlgo(e.rp)
      v   == IF pin THEN VGrid[e.rp.rs[1].lo] ELSE NoVer
      pm  == IF e.plat = NoPlat THEN [os_name |-> "", sys_platform |-> "", platform_machine |-> "", platform_system |-> ""]
             ELSE Markers(e.plat)
  IN [has_python |-> pin, python_version |-> <<v[1], v[2]>>, python_full_version |-> v,
      has_platform |-> e.plat # NoPlat,
      os_name |-> pm.os_name, sys_platform |-> pm.sys_platform, platform_machine |-> pm.platform_machine, platform_system |-> pm.platform_system,
      has_impl |-> e.set.impl # "",
      implementation_name |-> ImplName(e.set.impl),
      platform_python_implementation |-> (CASE e.set.impl = "pp" -> "PyPy" [] e.set.impl = "pt" -> "Pyston" [] e.set.impl = "" -> "" [] OTHER -> "CPython")]

\* as_dict(): keys present, and gil_disabled only together with implementation; from_spec applied to that dictionary rebuilds the spec
AsDict(e) == [requires_python |-> e.rp,
              has_platform |-> e.plat # NoPlat, platform |-> IF e.plat = NoPlat THEN <<>> ELSE Str(e.plat),
              has_impl |-> e.set.impl # "", implementation |-> ImplName(e.set.impl), gil_disabled |-> e.set.ft = 1]
ImplShort(n) == CASE n = "cpython" -> "cp" [] n = "pypy" -> "pp" [] n = "pyston" -> "pt" [] OTHER -> ""
FromDict(d) == [rp |-> d.requires_python,
                plat |-> IF d.has_platform THEN Parse(d.platform) ELSE NoPlat,
                set |-> IF d.has_impl THEN [impl |-> ImplShort(d.implementation), ft |-> IF d.gil_disabled THEN 1 ELSE 0]
                        ELSE [impl |-> "", ft |-> -1]]
\* _ensure_version_specifier: from_spec refuses a requires_python that parses to the empty set (named deviation from a
\* plain round trip: an EnvSpec built directly with an EmptySpecifier serialises to "<empty>" and cannot be read back)
FromSpecAccepts(d) == d.requires_python.k # "empty"
\* Implementation.parse: free threading exists for CPython only
ImplParseOk(name, gil) == name \in {"cpython", "pypy", "pyston"} /\ (gil => name = "cpython")

\* ----------------------------------------------------------- STATE MACHINE
VARIABLES e, phase, mk, back
vvars == <<e, phase, mk, back>>
ASSUME PrintT(<<"TAGPAIRS", TagPairs>>)
ASSUME PrintT(<<"VGRID", VGrid>>)
ViewInit == e \in Views /\ phase = "spec" /\ mk = <<>> /\ back = <<>>
ViewNext == /\ phase = "spec" /\ phase' = "viewed"
            /\ mk' = MarkersOf(e) /\ back' = FromDict(AsDict(e))
            /\ UNCHANGED e
ViewSpec == ViewInit /\ [][ViewNext]_vvars

\* the python keys appear exactly when the target is one single interpreter version, and name that version
PinnedExact == phase = "viewed" =>
  /\ mk.has_python = Pinned(e.rp)
  /\ (mk.has_python => mk.python_full_version = TheVersion(e.rp))
\* the environment lies in the domain the marker properties (C02, C03) quantify over
PythonCoherent == phase = "viewed" /\ mk.has_python =>
  mk.python_version = <<mk.python_full_version[1], mk.python_full_version[2]>>
ImplementationCoherent == phase = "viewed" =>
  /\ mk.has_impl = (e.set.impl # "")
  /\ (mk.has_impl => mk.platform_python_implementation = ImplReported(e.set.impl) /\ mk.implementation_name = ImplName(e.set.impl))
  /\ (mk.has_impl => ImplParseOk(mk.implementation_name, e.set.ft = 1))
\* wheel view and marker view describe the same interpreter: on a pinned CPython-or-unspecified target the cpXY
\* wheel with its own ABI is accepted exactly when markers() says python_version == X.Y
WheelViewAgrees == phase = "viewed" /\ mk.has_python /\ e.set.impl \in {"", "cp"} =>
  \A i \in 1..NP :
    LET t == TagPairs[i][1]  a == TagPairs[i][2] IN
    (t.impl = "cp" /\ a.kind = "concrete" /\ a.impl = "cp" /\ a.major = t.major /\ a.minor = t.minor /\ a.flag = (IF e.set.ft = 1 THEN "t" ELSE "")) =>
      (EvalPython(e.rp, e.set, t, a).ok = (mk.python_version = <<t.major, t.minor>>))
\* serialisation round trip
DictRoundTrip == phase = "viewed" /\ FromSpecAccepts(AsDict(e)) =>
  /\ back.rp = e.rp /\ back.plat = e.plat /\ back.set.impl = e.set.impl
  /\ (e.set.impl # "" => back.set.ft = e.set.ft)
=============================================================================
