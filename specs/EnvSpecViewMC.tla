---------------------------- MODULE EnvSpecViewMC ----------------------------
EXTENDS EnvSpecView
Inner2      == { <<3, 9, 5>>, <<3, 10, 2>> }
BoundsView  == { <<3, 9, 0>>, <<3, 9, 5>>, <<3, 10, 2>>, <<3, 11, 0>> }
BoundsViewQuick == { <<3, 9, 5>>, <<3, 10, 0>>, <<3, 10, 2>> }
MinorsView  == {8, 9, 10, 11}
PlatsView   == { Cfg("manylinux", 2, 17, "x86_64"), Cfg("manylinux", 2, 28, "aarch64"), Cfg("manylinux", 2, 17, "riscv64"),
                 Cfg("musllinux", 1, 1, "x86_64"), Cfg("musllinux", 1, 2, "armv7l"),
                 Cfg("macos", 10, 15, "x86_64"), Cfg("macos", 12, 0, "aarch64"),
                 Cfg("windows", 0, 0, "x86_64"), Cfg("windows", 0, 0, "x86"), Cfg("windows", 0, 0, "aarch64") }
=============================================================================
