------------------------------ MODULE GenericOps ------------------------------
(***************************************************************************)
(* String-atom specifier algebra: dep_logic/specifiers/generic.py          *)
(* (GenericSpecifier.__and__/__or__/__invert__/__contains__) and the       *)
(* EmptySpecifier / AnySpecifier values its case table returns.            *)
(*                                                                         *)
(* Literals are sequences over a two-letter alphabet so that the relations *)
(* the table inspects (equal, substring, superstring, overlapping,         *)
(* disjoint, empty string) are COMPUTED here, not assumed.  Literals have  *)
(* length <= MaxLit, candidates length <= MaxLit + 1 (a candidate longer   *)
(* than every literal stands for "a string containing a foreign letter").  *)
(*                                                                         *)
(* MEANING: Sat(s, c) per PEP 508 string operators ("in" is substring      *)
(* containment of the candidate in the literal).                           *)
(* ALGORITHM: the sorted-operator case table, branch for branch.           *)
(***************************************************************************)
EXTENDS Naturals, Sequences, FiniteSets, TLC

CONSTANT MaxLit
Letters == {"a", "b"}
RECURSIVE SeqsUpTo(_)
SeqsUpTo(n) == IF n = 0 THEN {<<>>}
               ELSE LET S == SeqsUpTo(n - 1)
                    IN S \cup { Append(s, x) : s \in { t \in S : Len(t) = n - 1 }, x \in Letters }
Lits  == SeqsUpTo(MaxLit)
Cands == SeqsUpTo(MaxLit + 1)
Ops   == {"==", "!=", "in", "not in"}
Specs == [op : Ops, v : Lits]

IsSub(x, y) == \E i \in 0..(Len(y) - Len(x)) : SubSeq(y, i + 1, i + Len(x)) = x    \* x in y

\* ----------------------------------------------------------------- MEANING
Sat(s, c) == CASE s.op = "=="     -> c = s.v
               [] s.op = "!="     -> c # s.v
               [] s.op = "in"     -> IsSub(c, s.v)
               [] s.op = "not in" -> ~IsSub(c, s.v)
DenS(s) == { c \in Cands : Sat(s, c) }

\* results: [k |-> "spec", s |-> ...], "empty", "any", "ni" (NotImplementedError)
Spec_(s) == [k |-> "spec", s |-> s]
EmptyR   == [k |-> "empty", s |-> [op |-> "==", v |-> <<>>]]
AnyR     == [k |-> "any",   s |-> [op |-> "==", v |-> <<>>]]
NI       == [k |-> "ni",    s |-> [op |-> "==", v |-> <<>>]]
DenR(r) == CASE r.k = "spec" -> DenS(r.s) [] r.k = "empty" -> {} [] r.k = "any" -> Cands [] OTHER -> {}

\* --------------------------------------------------------------- ALGORITHM
OpOrder(o) == CASE o = "==" -> 0 [] o = "!=" -> 1 [] o = "in" -> 2 [] o = "not in" -> 3
\* sorted((self, other), key=op_order) -- stable
This(x, y) == IF OpOrder(y.op) < OpOrder(x.op) THEN y ELSE x
That(x, y) == IF OpOrder(y.op) < OpOrder(x.op) THEN x ELSE y

GAnd(x, y) ==
  IF x = y THEN Spec_(x)
  ELSE LET this == This(x, y)  that == That(x, y) IN
    IF this.op = "==" /\ that.op = "==" THEN EmptyR
    ELSE IF this.op = "==" /\ that.op = "!=" THEN (IF this.v = that.v THEN EmptyR ELSE Spec_(this))
    ELSE IF this.op = "in" /\ that.op = "not in" /\ this.v = that.v THEN EmptyR
    ELSE IF this.op = "==" /\ that.op = "in" THEN (IF IsSub(this.v, that.v) THEN Spec_(this) ELSE EmptyR)
    ELSE IF this.op = "!=" /\ that.op = "not in" /\ IsSub(this.v, that.v) THEN Spec_(that)
    ELSE NI

GOr(x, y) ==
  IF x = y THEN Spec_(x)
  ELSE LET this == This(x, y)  that == That(x, y) IN
    IF this.op = "==" /\ that.op = "!=" THEN (IF this.v = that.v THEN AnyR ELSE Spec_(that))
    ELSE IF this.op = "!=" /\ that.op = "!=" THEN AnyR
    ELSE IF this.op = "in" /\ that.op = "not in" /\ this.v = that.v THEN AnyR
    ELSE IF this.op = "!=" /\ that.op = "in" /\ IsSub(this.v, that.v) THEN AnyR
    ELSE IF this.op = "!=" /\ that.op = "not in" THEN (IF IsSub(this.v, that.v) THEN Spec_(this) ELSE AnyR)
    ELSE IF this.op = "==" /\ that.op = "in" /\ IsSub(this.v, that.v) THEN Spec_(that)
    ELSE NI

GNot(x) == Spec_([op |-> CASE x.op = "==" -> "!=" [] x.op = "!=" -> "==" [] x.op = "in" -> "not in" [] x.op = "not in" -> "in",
                  v |-> x.v])
=============================================================================
