SPECIFICATION GSpec
CONSTANT MaxLit = 3
INVARIANT Exact
INVARIANT Symmetric
CHECK_DEADLOCK FALSE
