----------------------------- MODULE GenericSpec -----------------------------
(***************************************************************************)
(* State machine over GenericOps: every ordered pair of (operator, literal)*)
(* specifiers; one step applies &, | or ~ with the transcribed case table. *)
(* The operators live in GenericOps so that GroupAlgebra can reuse them.   *)
(***************************************************************************)
EXTENDS GenericOps

\* ----------------------------------------------------------- STATE MACHINE
VARIABLES a, b, op, res, den, want
gvars == <<a, b, op, res, den, want>>
GInit == a \in Specs /\ b \in Specs /\ op = "init" /\ res = NI /\ den = {} /\ want = {}
GNext == /\ op = "init"
         /\ \E o \in {"and", "or", "not"} :
              /\ (o = "not" => a = b)
              /\ op' = o
              /\ res' = (CASE o = "and" -> GAnd(a, b) [] o = "or" -> GOr(a, b) [] o = "not" -> GNot(a))
         /\ den' = DenR(res')                       \* what the algorithm's answer denotes
         /\ want' = (CASE op' = "and" -> DenS(a) \cap DenS(b)      \* what the meaning layer demands
                       [] op' = "or"  -> DenS(a) \cup DenS(b)
                       [] op' = "not" -> Cands \ DenS(a))
         /\ UNCHANGED <<a, b>>
GSpec == GInit /\ [][GNext]_gvars

\* C19: wherever the table answers, the answer is exact
Exact == /\ (op \in {"and", "or"} /\ res.k # "ni" => den = want)
         /\ (op = "not" => res.k = "spec" /\ den = want)
\* the table is symmetric in its operands (a & b and b & a give results with equal meaning)
Symmetric == op = "init" =>
               /\ (GAnd(a, b).k = "ni") = (GAnd(b, a).k = "ni")
               /\ DenR(GAnd(a, b)) = DenR(GAnd(b, a))
               /\ (GOr(a, b).k = "ni") = (GOr(b, a).k = "ni")
               /\ DenR(GOr(a, b)) = DenR(GOr(b, a))
=============================================================================
