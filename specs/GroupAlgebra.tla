----------------------------- MODULE GroupAlgebra -----------------------------
(***************************************************************************)
(* The ATOM LAYER of string-valued markers (dep_logic/markers/single.py):  *)
(* MarkerExpression, EqualityMarkerUnion (x == a or x == b ...) and        *)
(* InequalityMultiMarker (x != a and x != b ...) on ONE variable, their    *)
(* & and | tables, Python's reflected dispatch between the three classes,  *)
(* _merge_single_markers (GenericSpecifier table of GenericOps, the        *)
(* NotImplementedError fallback that creates the groups) and replace().    *)
(*                                                                         *)
(* MEANING   Holds(m, s): which strings satisfy m.                         *)
(* ALGORITHM And1 / Or1: branch-for-branch.  A result is a single marker   *)
(*   (atom, group), Empty, Any, or "pair": MultiMarker(x, y) /             *)
(*   MarkerUnion(x, y) left for the tree layer (MarkerNormalForm).         *)
(***************************************************************************)
EXTENDS GenericOps

\* values: [k, op, v, vals]  k in atom | eq | ne | empty | any | pair
AtomV(op, v) == [k |-> "atom", op |-> op, v |-> v, vals |-> <<>>]
EqG(vals)    == [k |-> "eq", op |-> "", v |-> <<>>, vals |-> vals]
NeG(vals)    == [k |-> "ne", op |-> "", v |-> <<>>, vals |-> vals]
EmptyV       == [k |-> "empty", op |-> "", v |-> <<>>, vals |-> <<>>]
AnyV         == [k |-> "any", op |-> "", v |-> <<>>, vals |-> <<>>]
PairV        == [k |-> "pair", op |-> "", v |-> <<>>, vals |-> <<>>]
SeqSet(q)    == { q[i] : i \in 1..Len(q) }

\* ----------------------------------------------------------------- MEANING
Holds(m, s) == CASE m.k = "atom"  -> Sat([op |-> m.op, v |-> m.v], s)
                 [] m.k = "eq"    -> s \in SeqSet(m.vals)
                 [] m.k = "ne"    -> s \notin SeqSet(m.vals)
                 [] m.k = "empty" -> FALSE
                 [] m.k = "any"   -> TRUE
DenV(m) == { s \in Cands : Holds(m, s) }
NormalV(m) == m.k \in {"eq", "ne"} => Len(m.vals) >= 2 /\ Cardinality(SeqSet(m.vals)) = Len(m.vals)

\* --------------------------------------------------------------- ALGORITHM
\* OrderedSet operations keep the left operand's order
Keep(q, S)  == SelectSeq(q, LAMBDA x : x \in S)
UnionQ(q, r) == q \o SelectSeq(r, LAMBDA x : x \notin SeqSet(q))
\* EqualityMarkerUnion.replace / InequalityMultiMarker.replace
ReplEq(vals) == IF vals = <<>> THEN EmptyV ELSE IF Len(vals) = 1 THEN AtomV("==", vals[1]) ELSE EqG(vals)
ReplNe(vals) == IF vals = <<>> THEN AnyV ELSE IF Len(vals) = 1 THEN AtomV("!=", vals[1]) ELSE NeG(vals)
InSpec(v, a) == Sat([op |-> a.op, v |-> a.v], v)            \* `v in other.specifier`

\* _merge_single_markers(m1, m2, kind) for two atoms of the same variable
MergeAtoms(kind, x, y) ==
  LET sx == [op |-> x.op, v |-> x.v]  sy == [op |-> y.op, v |-> y.v]
      r  == IF kind = "and" THEN GAnd(sx, sy) ELSE GOr(sx, sy)
  IN IF r.k = "ni"                                            \* NotImplementedError
       THEN (IF x.op = "==" /\ y.op = "==" /\ kind = "or" THEN EqG(<<x.v>> \o (IF y.v = x.v THEN <<>> ELSE <<y.v>>))
             ELSE IF x.op = "!=" /\ y.op = "!=" /\ kind = "and" THEN NeG(<<x.v>> \o (IF y.v = x.v THEN <<>> ELSE <<y.v>>))
             ELSE PairV)
     ELSE IF r.k = "empty" THEN EmptyV ELSE IF r.k = "any" THEN AnyV
     ELSE IF r.s = sx THEN x ELSE IF r.s = sy THEN y ELSE AtomV(r.s.op, r.s.v)

RECURSIVE And1(_, _), Or1(_, _)
\* x & y with the reflected dispatch (MarkerExpression.__and__ -> NotImplemented -> other.__rand__ = __and__)
And1(x, y) ==
  CASE x.k = "atom" -> (IF y.k = "atom" THEN MergeAtoms("and", x, y) ELSE And1(y, x))
    [] x.k = "eq" ->
         (CASE y.k = "atom" -> ReplEq(SelectSeq(x.vals, LAMBDA v : InSpec(v, y)))
            [] y.k = "eq"   -> ReplEq(Keep(x.vals, SeqSet(y.vals)))
            [] y.k = "ne"   -> And1(y, x))                                   \* NotImplemented -> InequalityMultiMarker.__rand__
    [] x.k = "ne" ->
         (CASE y.k = "atom" ->
                 (IF y.op = "==" THEN (IF y.v \in SeqSet(x.vals) THEN EmptyV ELSE y)
                  ELSE IF y.op = "!=" THEN (IF y.v \in SeqSet(x.vals) THEN x ELSE NeG(Append(x.vals, y.v)))
                  ELSE IF ~(\E i \in 1..Len(x.vals) : InSpec(x.vals[i], y)) THEN y
                  ELSE PairV)
            [] y.k = "eq"   -> ReplEq(SelectSeq(y.vals, LAMBDA v : v \notin SeqSet(x.vals)))
            [] y.k = "ne"   -> NeG(UnionQ(x.vals, y.vals)))
Or1(x, y) ==
  CASE x.k = "atom" -> (IF y.k = "atom" THEN MergeAtoms("or", x, y) ELSE Or1(y, x))
    [] x.k = "eq" ->
         (CASE y.k = "atom" ->
                 (IF y.op = "==" THEN (IF y.v \in SeqSet(x.vals) THEN x ELSE EqG(Append(x.vals, y.v)))
                  ELSE IF y.op = "!=" THEN (IF y.v \in SeqSet(x.vals) THEN AnyV ELSE y)
                  ELSE IF \A i \in 1..Len(x.vals) : InSpec(x.vals[i], y) THEN y
                  ELSE PairV)
            [] y.k = "eq"   -> EqG(UnionQ(x.vals, y.vals))
            [] y.k = "ne"   -> Or1(y, x))
    [] x.k = "ne" ->
         (CASE y.k = "atom" -> ReplNe(SelectSeq(x.vals, LAMBDA v : ~InSpec(v, y)))
            [] y.k = "eq"   -> ReplNe(SelectSeq(x.vals, LAMBDA v : v \notin SeqSet(y.vals)))
            [] y.k = "ne"   -> ReplNe(Keep(x.vals, SeqSet(y.vals))))

\* ----------------------------------------------------------- STATE MACHINE
CONSTANT GroupLits        \* literals used inside groups (a subset of Lits)
Pairs2 == { <<u, v>> : u \in GroupLits, v \in GroupLits } \ { <<u, u>> : u \in GroupLits }
Triples == { t \in GroupLits \X GroupLits \X GroupLits : t[1] # t[2] /\ t[1] # t[3] /\ t[2] # t[3] }
Groups == { EqG(p) : p \in Pairs2 } \cup { NeG(p) : p \in Pairs2 } \cup
          { EqG(<<t[1], t[2], t[3]>>) : t \in Triples } \cup { NeG(<<t[1], t[2], t[3]>>) : t \in Triples }
AtomVals == { AtomV(o, v) : o \in Ops, v \in Lits }
Values == AtomVals \cup Groups

VARIABLES x, y, op, res
avars == <<x, y, op, res>>
AInit == x \in Values /\ y \in Values /\ op = "init" /\ res = PairV
ANext == /\ op = "init"
         /\ \/ op' = "and" /\ res' = And1(x, y)
            \/ op' = "or"  /\ res' = Or1(x, y)
         /\ UNCHANGED <<x, y>>
ASpec == AInit /\ [][ANext]_avars

\* C02 (atom layer): whenever the tables answer with a single marker, it denotes exactly the
\* intersection / union of the operands
TableExact == res.k # "pair" =>
   /\ (op = "and" => DenV(res) = DenV(x) \cap DenV(y))
   /\ (op = "or"  => DenV(res) = DenV(x) \cup DenV(y))
\* C15 (atom layer): groups keep at least two distinct values
GroupsNormal == op # "init" /\ res.k # "pair" => NormalV(res)
=============================================================================
