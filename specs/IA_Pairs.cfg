SPECIFICATION PairsSpec
CONSTANT N = 3
INVARIANT DenExact
INVARIANT ResultCanonical
INVARIANT ResultIsTheCanonical
INVARIANT EmptyAnyExact
INVARIANT EqExact
INVARIANT EqSymmetric
INVARIANT EqImpliesHash
INVARIANT CanonUnique
CHECK_DEADLOCK FALSE
