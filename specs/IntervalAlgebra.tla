-------------------------- MODULE IntervalAlgebra --------------------------
(***************************************************************************)
(* State machines over IntervalOps (one source of truth, three configs):   *)
(*                                                                         *)
(*  Pairs    every ordered pair of values over N bounds; one step applies  *)
(*           &, | or ~ with the transcribed algorithm.  The dumped states  *)
(*           are the B1 replay vectors (operands, operation, result).      *)
(*  Session  two registers that start from the images of parsing and are   *)
(*           closed under the operators ("obtainable from parsing and from *)
(*           previous results" is reachability); ghost denotations gx, gy. *)
(*  Laws     every triple; one step evaluates both sides of a law.         *)
(***************************************************************************)
EXTENDS IntervalOps

VARIABLES a, b, c, op, res, rhs
vars == <<a, b, c, op, res, rhs>>

CanonicalValues == { CanonOf(D) : D \in SUBSET Probes }
AllValues == CanonicalValues \cup {A}        \* + the second spelling of the universal set

Apply(o, x, y) == CASE o = "and" -> And(x, y) [] o = "or" -> Or(x, y) [] o = "not" -> Not(x)

\* ---------------- Pairs ----------------
PairsInit == /\ a \in AllValues /\ b \in AllValues
             /\ c = E /\ op = "init" /\ res = E /\ rhs = E
PairsNext == /\ op = "init"
             /\ \E o \in {"and", "or", "not"} :
                  /\ (o = "not" => a = b)          \* unary: only on the diagonal
                  /\ op' = o
                  /\ res' = Apply(o, a, b)
             /\ UNCHANGED <<a, b, c, rhs>>
PairsSpec == PairsInit /\ [][PairsNext]_vars

\* C01: exact set operations
DenExact == /\ (op = "and" => Den(res) = Den(a) \cap Den(b))
            /\ (op = "or"  => Den(res) = Den(a) \cup Den(b))
            /\ (op = "not" => Den(res) = Probes \ Den(a))
\* C05: canonical results, exact emptiness / universality / equality
ResultCanonical == op # "init" => Canonical(res)
ResultIsTheCanonical == op # "init" => (res = CanonOf(Den(res)) \/ (res = A /\ Den(res) = Probes))
EmptyAnyExact == /\ (IsEmpty(res) <=> Den(res) = {})
                 /\ (IsAny(res) <=> Den(res) = Probes)
                 /\ (IsEmpty(a) <=> Den(a) = {}) /\ (IsAny(a) <=> Den(a) = Probes)
EqExact == /\ (Eq(a, b) <=> Den(a) = Den(b))
           /\ (op # "init" => (Eq(res, a) <=> Den(res) = Den(a)) /\ (Eq(res, b) <=> Den(res) = Den(b)))
\* C13: equivalence compatible with hashing (transitivity: Eq is Den-equality by EqExact)
EqSymmetric == (Eq(a, b) <=> Eq(b, a)) /\ Eq(a, a) /\ Eq(res, res) /\ (Eq(res, a) <=> Eq(a, res))
EqImpliesHash == /\ (Eq(a, b) => HashEq(a, b))
                 /\ (Eq(res, a) => HashEq(res, a)) /\ (Eq(res, b) => HashEq(res, b))
\* meaning layer sanity: canonical forms are unique per denotation
CanonUnique == \A v \in {a, b} : v # A => (Canonical(v) /\ v = CanonOf(Den(v)))

\* ---------------- Session ----------------
\* parse images: what parse_version_specifier / from_specifierset produce for one clause
ParseImages ==
  { R(Universal), E } \cup
  { R(Rng(p, None, i, FALSE)) : p \in Points, i \in BOOLEAN } \cup       \* >p  >=p
  { R(Rng(None, p, FALSE, i)) : p \in Points, i \in BOOLEAN } \cup       \* <p  <=p
  { R(Rng(p, p, TRUE, TRUE)) : p \in Points } \cup                       \* ==p
  { U(<<Rng(None, p, FALSE, FALSE), Rng(p, None, FALSE, FALSE)>>) : p \in Points } \cup   \* !=p
  { R(Rng(pq[1], pq[2], TRUE, FALSE)) : pq \in { x \in Points \X Points : x[1] < x[2] } } \cup       \* ==X.*  ~=
  { U(<<Rng(None, pq[1], FALSE, FALSE), Rng(pq[2], None, TRUE, FALSE)>>) : pq \in { x \in Points \X Points : x[1] < x[2] } }  \* !=X.*

\* registers a, b with ghost denotations c = <<Den a, Den b>> kept by set algebra only
SessInit == /\ a \in ParseImages /\ b \in ParseImages
            /\ c = <<Den(a), Den(b)>> /\ op = "load" /\ res = E /\ rhs = E
SessNext ==
  \/ /\ op' = "and"  /\ a' = And(a, b) /\ c' = <<c[1] \cap c[2], c[2]>> /\ UNCHANGED <<b, res, rhs>>
  \/ /\ op' = "rand" /\ a' = And(b, a) /\ c' = <<c[1] \cap c[2], c[2]>> /\ UNCHANGED <<b, res, rhs>>
  \/ /\ op' = "or"   /\ a' = Or(a, b)  /\ c' = <<c[1] \cup c[2], c[2]>> /\ UNCHANGED <<b, res, rhs>>
  \/ /\ op' = "ror"  /\ a' = Or(b, a)  /\ c' = <<c[1] \cup c[2], c[2]>> /\ UNCHANGED <<b, res, rhs>>
  \/ /\ op' = "not"  /\ a' = Not(a)    /\ c' = <<Probes \ c[1], c[2]>>  /\ UNCHANGED <<b, res, rhs>>
  \/ /\ op' = "swap" /\ a' = b /\ b' = a /\ c' = <<c[2], c[1]>> /\ UNCHANGED <<res, rhs>>
  \/ \E v \in ParseImages :
       /\ op' = "load" /\ b' = v /\ c' = <<c[1], Den(v)>> /\ UNCHANGED <<a, res, rhs>>
SessSpec == SessInit /\ [][SessNext]_vars

SessDenExact     == Den(a) = c[1] /\ Den(b) = c[2]                       \* C01
SessCanonical    == Canonical(a) /\ Canonical(b)                         \* C05
SessTheCanonical == \A v \in {a, b} : v = CanonOf(Den(v)) \/ (v = A /\ Den(v) = Probes)
SessEqExact      == (Eq(a, b) <=> c[1] = c[2]) /\ (Eq(b, a) <=> c[1] = c[2])   \* C05
SessEmptyAny     == (IsEmpty(a) <=> c[1] = {}) /\ (IsAny(a) <=> c[1] = Probes)
SessEqHash       == Eq(a, b) => HashEq(a, b)                             \* C13

\* ---------------- Laws ----------------
LawNames == { "and_comm", "or_comm", "and_assoc", "or_assoc", "and_idem", "or_idem",
              "absorb1", "absorb2", "distrib1", "distrib2", "involution",
              "demorgan1", "demorgan2", "compl_and", "compl_or" }
Lhs(l) == CASE l = "and_comm"   -> And(a, b)
            [] l = "or_comm"    -> Or(a, b)
            [] l = "and_assoc"  -> And(And(a, b), c)
            [] l = "or_assoc"   -> Or(Or(a, b), c)
            [] l = "and_idem"   -> And(a, a)
            [] l = "or_idem"    -> Or(a, a)
            [] l = "absorb1"    -> And(a, Or(a, b))
            [] l = "absorb2"    -> Or(a, And(a, b))
            [] l = "distrib1"   -> And(a, Or(b, c))
            [] l = "distrib2"   -> Or(a, And(b, c))
            [] l = "involution" -> Not(Not(a))
            [] l = "demorgan1"  -> Not(And(a, b))
            [] l = "demorgan2"  -> Not(Or(a, b))
            [] l = "compl_and"  -> And(a, Not(a))
            [] l = "compl_or"   -> Or(a, Not(a))
Rhs(l) == CASE l = "and_comm"   -> And(b, a)
            [] l = "or_comm"    -> Or(b, a)
            [] l = "and_assoc"  -> And(a, And(b, c))
            [] l = "or_assoc"   -> Or(a, Or(b, c))
            [] l = "and_idem"   -> a
            [] l = "or_idem"    -> a
            [] l = "absorb1"    -> a
            [] l = "absorb2"    -> a
            [] l = "distrib1"   -> Or(And(a, b), And(a, c))
            [] l = "distrib2"   -> And(Or(a, b), Or(a, c))
            [] l = "involution" -> a
            [] l = "demorgan1"  -> Or(Not(a), Not(b))
            [] l = "demorgan2"  -> And(Not(a), Not(b))
            [] l = "compl_and"  -> E
            [] l = "compl_or"   -> A
LawsInit == /\ a \in AllValues /\ b \in AllValues /\ c \in AllValues
            /\ op = "init" /\ res = E /\ rhs = E
LawsNext == /\ op = "init"
            /\ \E l \in LawNames : op' = l /\ res' = Lhs(l) /\ rhs' = Rhs(l)
            /\ UNCHANGED <<a, b, c>>
LawsSpec == LawsInit /\ [][LawsNext]_vars
LawHolds == op # "init" => Eq(res, rhs) /\ Eq(rhs, res) /\ HashEq(res, rhs)     \* C14 (+C13)
LawSidesCanonical == op # "init" => Canonical(res) /\ Canonical(rhs)
=============================================================================
