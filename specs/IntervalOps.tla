---------------------------- MODULE IntervalOps ----------------------------
(***************************************************************************)
(* Version-specifier interval algebra of dep_logic.specifiers               *)
(* (range.py, union.py, special.py), without state variables so that the   *)
(* state machines IntervalAlgebra (pairs / sessions / laws) and            *)
(* SpecSessionTrace (trace validation) can both EXTEND it.                 *)
(*                                                                         *)
(* Abstraction (DESIGN.md section 3): the operators touch versions only    *)
(* through <, == and hash, so bounds are the abstract points 1..N and      *)
(* membership is observed on the probes 0..2N: probe 2k-1 sits exactly on  *)
(* bound k, probe 2k strictly between bound k and k+1 (0: below every      *)
(* bound, 2N: above every bound).                                          *)
(*                                                                         *)
(* Two layers:                                                             *)
(*   MEANING    Den, Canonical, CanonOf  -- what the properties talk about *)
(*   ALGORITHM  a branch-for-branch transcription of the Python methods,   *)
(*              including Python's reflected-operator dispatch between the *)
(*              four classes and the hand-written __eq__/__hash__.         *)
(***************************************************************************)
EXTENDS Naturals, Integers, Sequences, FiniteSets, TLC

CONSTANT N              \* number of abstract bound points

None   == 0             \* Python None for a missing bound
Points == 1..N
Probes == 0..(2*N)

(***************************************************************************)
(* Shapes.  A range is [lo, hi, li, ui] (min, max, include_min,            *)
(* include_max); a value is [k, rs] with k in {"empty","any","range",      *)
(* "union"} and rs the sequence of its ranges (<<>> for empty/any,         *)
(* one element for a RangeSpecifier).                                      *)
(***************************************************************************)
Rng(lo, hi, li, ui) == [lo |-> lo, hi |-> hi, li |-> li, ui |-> ui]
RangeShapes == { r \in [lo : 0..N, hi : 0..N, li : BOOLEAN, ui : BOOLEAN] :
                   /\ (r.lo = None => ~r.li)      \* __post_init__
                   /\ (r.hi = None => ~r.ui) }
E      == [k |-> "empty", rs |-> <<>>]
A      == [k |-> "any",   rs |-> <<>>]
R(r)   == [k |-> "range", rs |-> <<r>>]
U(rs)  == [k |-> "union", rs |-> rs]
Universal == Rng(None, None, FALSE, FALSE)

(***************************************************************************)
(* MEANING LAYER                                                           *)
(***************************************************************************)
AboveLo(r, p) == r.lo = None \/ p > 2*r.lo - 1 \/ (p = 2*r.lo - 1 /\ r.li)
BelowHi(r, p) == r.hi = None \/ p < 2*r.hi - 1 \/ (p = 2*r.hi - 1 /\ r.ui)
DenR(r) == { p \in Probes : AboveLo(r, p) /\ BelowHi(r, p) }

Den(v) == CASE v.k = "empty" -> {}
            [] v.k = "any"   -> Probes
            [] OTHER         -> UNION { DenR(v.rs[i]) : i \in 1..Len(v.rs) }

\* every probe of a lies at least two below every probe of b: a gap in between
Separated(a, b) == \A p \in DenR(a), q \in DenR(b) : p + 1 < q

Canonical(v) ==
  CASE v.k = "empty" -> v.rs = <<>>
    [] v.k = "any"   -> v.rs = <<>>
    [] v.k = "range" -> Len(v.rs) = 1 /\ DenR(v.rs[1]) # {}
    [] v.k = "union" -> /\ Len(v.rs) >= 2
                        /\ \A i \in 1..Len(v.rs) : DenR(v.rs[i]) # {} /\ DenR(v.rs[i]) # Probes
                        /\ \A i \in 1..(Len(v.rs) - 1) : Separated(v.rs[i], v.rs[i+1])
    [] OTHER -> FALSE

\* The unique canonical value of a denotation: one range per maximal run of probes.
RunStarts(D) == { p \in D : (p - 1) \notin D }
RunEnd(D, s) == CHOOSE q \in D : q >= s /\ (\A x \in s..q : x \in D) /\ (q + 1) \notin D
RangeOfRun(s, q) ==
  LET lo == IF s = 0 THEN None ELSE (s + 1) \div 2
      li == s # 0 /\ s % 2 = 1
      hi == IF q = 2*N THEN None ELSE IF q % 2 = 1 THEN (q + 1) \div 2 ELSE (q \div 2) + 1
      ui == q # 2*N /\ q % 2 = 1
  IN Rng(lo, hi, li, ui)
RECURSIVE SortedSeq(_)
SortedSeq(S) == IF S = {} THEN <<>>
                ELSE LET m == CHOOSE x \in S : \A y \in S : x <= y
                     IN <<m>> \o SortedSeq(S \ {m})
CanonOf(D) ==
  IF D = {} THEN E
  ELSE LET starts == SortedSeq(RunStarts(D))
           rs == [i \in 1..Len(starts) |-> RangeOfRun(starts[i], RunEnd(D, starts[i]))]
       IN IF Len(rs) = 1 THEN R(rs[1]) ELSE U(rs)

\* (the enumeration of all canonical values lives in IntervalAlgebra: TLC evaluates zero-arity
\*  constant definitions eagerly, and 2^(2N+1) subsets must not be built by the trace specification)

(***************************************************************************)
(* ALGORITHM LAYER: range.py                                               *)
(***************************************************************************)
AllowsLower(s, o) ==
  IF o.lo = None THEN FALSE
  ELSE IF s.lo = None THEN TRUE
  ELSE s.lo < o.lo \/ (s.lo = o.lo /\ s.li /\ ~o.li)

AllowsHigher(s, o) ==
  IF o.hi = None THEN FALSE
  ELSE IF s.hi = None THEN TRUE
  ELSE s.hi > o.hi \/ (s.hi = o.hi /\ s.ui /\ ~o.ui)

IsStrictlyLower(s, o) ==
  IF s.hi = None \/ o.lo = None THEN FALSE
  ELSE s.hi < o.lo \/ (s.hi = o.lo /\ (~s.ui \/ ~o.li))

IsAdjacentTo(s, o) ==
  IF s.hi = None \/ o.lo = None THEN FALSE
  ELSE s.hi = o.lo /\ (s.ui # o.li)          \* [..].count(True) == 1

IsSuperset(s, o) ==
  LET minLower  == s.lo = None \/ (o.lo # None /\ (s.lo < o.lo \/ (s.lo = o.lo /\ ~(~s.li /\ o.li))))
      maxHigher == s.hi = None \/ (o.hi # None /\ (s.hi > o.hi \/ (s.hi = o.hi /\ ~(~s.ui /\ o.ui))))
  IN minLower /\ maxHigher

CanCombine(s, o) ==
  IF AllowsLower(s, o) THEN ~IsStrictlyLower(s, o) \/ IsAdjacentTo(s, o)
  ELSE ~IsStrictlyLower(o, s) \/ IsAdjacentTo(o, s)

RangeAnd(s, o) ==
  IF IsSuperset(s, o) THEN R(o)
  ELSE IF IsSuperset(o, s) THEN R(s)
  ELSE LET lower == AllowsLower(s, o) IN
    IF lower /\ IsStrictlyLower(s, o) THEN E
    ELSE IF ~lower /\ IsStrictlyLower(o, s) THEN E
    ELSE LET mn == IF lower THEN o ELSE s
             mx == IF AllowsHigher(s, o) THEN o ELSE s
         IN R(Rng(mn.lo, mx.hi, mn.li, mx.ui))

RangeOr(s, o) ==
  IF IsSuperset(s, o) THEN R(s)
  ELSE IF IsSuperset(o, s) THEN R(o)
  ELSE LET lower == AllowsLower(s, o) IN
    IF lower /\ IsStrictlyLower(s, o) /\ ~IsAdjacentTo(s, o) THEN U(<<s, o>>)
    ELSE IF ~lower /\ IsStrictlyLower(o, s) /\ ~IsAdjacentTo(o, s) THEN U(<<o, s>>)
    ELSE LET mn == IF lower THEN s ELSE o
             mx == IF AllowsHigher(s, o) THEN s ELSE o
         IN R(Rng(mn.lo, mx.hi, mn.li, mx.ui))

RangeInvert(s) ==
  IF s.lo = None /\ s.hi = None THEN E
  ELSE LET below == IF s.lo # None THEN <<Rng(None, s.lo, FALSE, ~s.li)>> ELSE <<>>
           above == IF s.hi # None THEN <<Rng(s.hi, None, ~s.ui, FALSE)>> ELSE <<>>
           specs == below \o above
       IN IF Len(specs) = 1 THEN R(specs[1]) ELSE U(specs)

(***************************************************************************)
(* ALGORITHM LAYER: union.py                                               *)
(***************************************************************************)
FromRanges(rs) == IF Len(rs) = 0 THEN E ELSE IF Len(rs) = 1 THEN R(rs[1]) ELSE U(rs)

UnionInvert(rs) ==
  LET n     == Len(rs)
      first == IF rs[1].lo # None THEN <<Rng(None, rs[1].lo, FALSE, ~rs[1].li)>> ELSE <<>>
      gaps  == [i \in 1..(n-1) |-> Rng(rs[i].hi, rs[i+1].lo, ~rs[i].ui, ~rs[i+1].li)]
      last  == IF rs[n].hi # None THEN <<Rng(rs[n].hi, None, ~rs[n].ui, FALSE)>> ELSE <<>>
  IN FromRanges(first \o gaps \o last)

\* itertools.product(self.ranges, to_intersect), dropping EmptySpecifier results
RECURSIVE ProductAnd(_, _, _, _)
ProductAnd(xs, ys, i, j) ==
  IF i > Len(xs) THEN <<>>
  ELSE IF j > Len(ys) THEN ProductAnd(xs, ys, i + 1, 1)
  ELSE LET c == RangeAnd(xs[i], ys[j])
       IN (IF c.k = "empty" THEN <<>> ELSE c.rs) \o ProductAnd(xs, ys, i, j + 1)

UnionAnd(u, other) ==     \* UnionSpecifier.__and__(u, other); other is a range or union value
  IF other.k = "range" /\ other.rs[1] = Universal THEN u
  ELSE FromRanges(ProductAnd(u.rs, other.rs, 1, 1))

\* the ordered merge loop of UnionSpecifier.__or__ for a RangeSpecifier operand:
\*   for range in ranges: if can_combine -> other |= range
\*                        elif other.allows_lower(range) -> emit other, range, rest; break
\*                        else emit range
\*   else: emit other
RECURSIVE MergeLoop(_, _, _, _)
MergeLoop(rs, i, other, acc) ==
  IF i > Len(rs) THEN acc \o <<other>>
  ELSE LET r == rs[i] IN
    IF CanCombine(r, other)
      THEN LET m == RangeOr(other, r)
           IN \* t.cast(RangeSpecifier, ...): the code continues with whatever | returned
              IF m.k = "range" THEN MergeLoop(rs, i + 1, m.rs[1], acc)
              ELSE MergeLoop(rs, i + 1, m.rs[Len(m.rs)], acc \o SubSeq(m.rs, 1, Len(m.rs) - 1))
    ELSE IF AllowsLower(other, r)
      THEN acc \o <<other>> \o SubSeq(rs, i, Len(rs))
    ELSE MergeLoop(rs, i + 1, other, acc \o <<r>>)

UnionOrRange(u, r) ==
  IF r = Universal THEN R(r) ELSE FromRanges(MergeLoop(u.rs, 1, r, <<>>))

(***************************************************************************)
(* ALGORITHM LAYER: special.py + Python binary-operator dispatch           *)
(*   x & y: type(x).__and__(x, y); on NotImplemented type(y).__rand__(y,x) *)
(*   RangeSpecifier has no reflected methods; UnionSpecifier.__rand__ is   *)
(*   __and__, __ror__ is __or__; Empty/Any define both directions.         *)
(***************************************************************************)
RECURSIVE Or(_, _)
And(a, b) ==
  CASE a.k = "empty" -> a
    [] a.k = "any"   -> b
    [] a.k = "range" -> (CASE b.k = "range" -> RangeAnd(a.rs[1], b.rs[1])
                           [] b.k = "union" -> UnionAnd(b, a)      \* UnionSpecifier.__rand__
                           [] b.k = "empty" -> b                   \* EmptySpecifier.__rand__
                           [] b.k = "any"   -> a)                  \* AnySpecifier.__rand__ returns other
    [] a.k = "union" -> (CASE b.k \in {"range", "union"} -> UnionAnd(a, b)
                           [] b.k = "empty" -> b
                           [] b.k = "any"   -> a)

RECURSIVE UnionOrFold(_, _, _)
UnionOrFold(result, rs, i) ==      \* for range in other.ranges: result = result | range
  IF i > Len(rs) THEN result ELSE UnionOrFold(Or(result, R(rs[i])), rs, i + 1)

Or(a, b) ==
  CASE a.k = "empty" -> b
    [] a.k = "any"   -> a
    [] a.k = "range" -> (CASE b.k = "range" -> RangeOr(a.rs[1], b.rs[1])
                           [] b.k = "union" -> UnionOrRange(b, a.rs[1])   \* UnionSpecifier.__ror__
                           [] b.k = "empty" -> a                          \* EmptySpecifier.__ror__ returns other
                           [] b.k = "any"   -> b)                         \* AnySpecifier.__ror__ returns self
    [] a.k = "union" -> (CASE b.k = "range" -> UnionOrRange(a, b.rs[1])
                           [] b.k = "union" -> UnionOrFold(a, b.rs, 1)
                           [] b.k = "empty" -> a
                           [] b.k = "any"   -> b)

Not(a) ==
  CASE a.k = "empty" -> A
    [] a.k = "any"   -> E
    [] a.k = "range" -> RangeInvert(a.rs[1])
    [] a.k = "union" -> UnionInvert(a.rs)

IsEmpty(v) == v.k = "empty"
IsAny(v)   == v.k = "any" \/ (v.k = "range" /\ v.rs[1].lo = None /\ v.rs[1].hi = None)

(***************************************************************************)
(* __eq__ / __hash__ as written.                                           *)
(*  Range/Union: dataclass equality (same class and equal compared fields; *)
(*  `simplified` is compare=False and is not part of the shape);           *)
(*  Empty: isinstance(other, EmptySpecifier);  Any: other.is_any();        *)
(*  mixed Range/Union vs Empty/Any go through the reflected __eq__.        *)
(*  Hash: dataclass field tuple; Empty/Any hash their str().               *)
(***************************************************************************)
\* TRUE once AnySpecifier.__hash__ agrees with hash(RangeSpecifier()) (the two spellings of
\* the universal set compare equal); FALSE models the historical hash(str(self)).
AnyHashMatchesUniversalRange == TRUE

Eq(x, y) ==
  CASE x.k = "any"   -> IsAny(y)
    [] y.k = "any"   -> IsAny(x)
    [] x.k = "empty" -> y.k = "empty"
    [] y.k = "empty" -> x.k = "empty"
    [] OTHER         -> x = y
HashEq(x, y) ==    \* hash(x) == hash(y), hash collisions aside
  CASE x.k \in {"any", "empty"} \/ y.k \in {"any", "empty"} ->
         \/ x.k = y.k
         \/ AnyHashMatchesUniversalRange /\ IsAny(x) /\ IsAny(y)
    [] OTHER -> x = y
=============================================================================
