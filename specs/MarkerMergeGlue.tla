--------------------------- MODULE MarkerMergeGlue ---------------------------
(***************************************************************************)
(* _merge_python_version_single_markers and the same-variable branch of    *)
(* _merge_single_markers for python_version / python_full_version atoms    *)
(* (dep_logic/markers/single.py): the COMPOSITION of                       *)
(*   _normalize_python_version_specifier   (MarkerSemOps.NormalizeView)    *)
(*   MarkerExpression.specifier            (MarkerSemOps.SpecifierView)    *)
(*   the interval algebra & and |          (IntervalOps.And / Or)          *)
(*   "prefer the original marker" / MarkerExpression.from_specifier        *)
(*                                          (MarkerSemOps.FromRange, holes)*)
(* Versions are points of the interval algebra: VGrid lists every X.Y.Z    *)
(* of a small box; bounds are re-rendered in their three-segment spelling  *)
(* (spelling only decides WHETHER a result is re-rendered as one atom,     *)
(* never what it means - DESIGN 9.1).                                      *)
(* Property: a merged result, when there is one, evaluates exactly as the  *)
(* conjunction / disjunction of the two atoms on every interpreter.        *)
(***************************************************************************)
EXTENDS IntervalOps, MarkerSemOps

CONSTANTS GridMajors, GridMinors, GridMicros
LexLess3(u, v) == \/ u[1] < v[1] \/ (u[1] = v[1] /\ u[2] < v[2]) \/ (u[1] = v[1] /\ u[2] = v[2] /\ u[3] < v[3])
VSet  == { <<x, y, z>> : x \in GridMajors, y \in GridMinors, z \in GridMicros }
VGrid == SetToSortSeq(VSet, LexLess3)
ASSUME N = Len(VGrid)
PointOf(v) == CHOOSE i \in 1..N : VGrid[i] = Pad(v.rel, 3)
InGrid(v)  == Pad(v.rel, 3) \in VSet
VersionAt(i) == Final(VGrid[i])

\* Pep440Ops ranges (version bounds) -> interval-algebra value (point bounds)
ToRng(r) == Rng(IF r.lo = <<>> THEN None ELSE PointOf(r.lo[1]), IF r.hi = <<>> THEN None ELSE PointOf(r.hi[1]), r.li, r.ui)
RangesInGrid(rs) == \A i \in 1..Len(rs) : (rs[i].lo # <<>> => InGrid(rs[i].lo[1])) /\ (rs[i].hi # <<>> => InGrid(rs[i].hi[1]))
ToShape(rs) == IF Len(rs) = 1 THEN R(ToRng(rs[1])) ELSE U(<<ToRng(rs[1]), ToRng(rs[2])>>)
\* back: interval-algebra range -> Pep440Ops range
FromRng(g) == Rg(IF g.lo = None THEN <<>> ELSE <<VersionAt(g.lo)>>, IF g.hi = None THEN <<>> ELSE <<VersionAt(g.hi)>>, g.li, g.ui)

\* MarkerExpression.from_specifier on an interval-algebra value: [k |-> "atom"/"empty"/"any"/"none", a]
NoAtom == [kind |-> "ver", var |-> "python_full_version", op |-> "==", rel |-> <<0>>, rev |-> FALSE]
FromShape(name, v) ==
  CASE v.k = "empty" -> [k |-> "empty", a |-> NoAtom]
    [] IsAny(v)      -> [k |-> "any", a |-> NoAtom]
    [] v.k = "range" -> LET f == FromRange(name, FromRng(v.rs[1])) IN IF f.ok THEN [k |-> "atom", a |-> f.a] ELSE [k |-> "none", a |-> NoAtom]
    [] v.k = "union" ->
         IF Len(v.rs) # 2 \/ v.rs[1].lo # None \/ v.rs[2].hi # None THEN [k |-> "none", a |-> NoAtom]
         ELSE LET s == SimplifiedHole(FromRng(v.rs[1]), FromRng(v.rs[2])) IN
              IF s.k \in {"ne", "newild"}
                THEN [k |-> "atom", a |-> [kind |-> "ver", var |-> name, op |-> s.cl.op,
                                           rel |-> IF name = "python_full_version" /\ s.cl.op = "!=" THEN PadTo3(s.cl.v.rel) ELSE s.cl.v.rel, rev |-> FALSE]]
                ELSE [k |-> "none", a |-> NoAtom]

\* _merge_single_markers for two version atoms a1, a2 (kind "and" / "or")
Merge(kind, a1, a2) ==
  IF {a1.var, a2.var} = {"python_version", "python_full_version"} THEN
       LET pv   == IF a1.var = "python_version" THEN a1 ELSE a2
           pfv  == IF a1.var = "python_version" THEN a2 ELSE a1
           norm == ToShape(NormalizeView(pv))
           full == ToShape(SpecifierView(pfv))
           mg   == IF kind = "and" THEN And(norm, full) ELSE Or(norm, full)
       IN IF Eq(mg, norm) THEN [k |-> "atom", a |-> pv]             \* prefer the original marker
          ELSE FromShape("python_full_version", mg)
  ELSE IF a1.var # a2.var THEN [k |-> "none", a |-> NoAtom]
  ELSE LET s1 == ToShape(SpecifierView(a1))  s2 == ToShape(SpecifierView(a2))
           mg == IF kind = "and" THEN And(s1, s2) ELSE Or(s1, s2)
       IN IF Eq(mg, s1) THEN [k |-> "atom", a |-> a1]
          ELSE IF Eq(mg, s2) THEN [k |-> "atom", a |-> a2]
          ELSE FromShape(a1.var, mg)

\* ----------------------------------------------------------- STATE MACHINE
GlueAtoms == { a \in VerAtoms : a.var \in {"python_version", "python_full_version"} /\ ~a.rev
                                 /\ RangesInGrid(SpecifierView(a)) /\ RangesInGrid(NormalizeView(a)) }
VARIABLES a1, a2, kind, out
gvars == <<a1, a2, kind, out>>
GlueInit == a1 \in GlueAtoms /\ a2 \in GlueAtoms /\ kind = "init" /\ out = [k |-> "none", a |-> NoAtom]
GlueNext == /\ kind = "init"
            /\ \E kd \in {"and", "or"} : kind' = kd /\ out' = Merge(kd, a1, a2)
            /\ UNCHANGED <<a1, a2>>
GlueSpec == GlueInit /\ [][GlueNext]_gvars

EnvAt(v) == [pfv |-> v, rel |-> <<0>>, os |-> <<>>, extra |-> NoName, extras |-> {}]
Truth(o, e) == CASE o.k = "atom" -> EvalAtom(o.a, e) [] o.k = "empty" -> FALSE [] o.k = "any" -> TRUE
\* C02 (atom layer, composition): a merge result evaluates as the conjunction / disjunction
MergeSound == kind # "init" /\ out.k # "none" =>
   \A v \in VSet : LET e == EnvAt(v) IN
      Truth(out, e) = (IF kind = "and" THEN EvalAtom(a1, e) /\ EvalAtom(a2, e) ELSE EvalAtom(a1, e) \/ EvalAtom(a2, e))
=============================================================================
