-------------------------- MODULE MarkerNormalForm --------------------------
(***************************************************************************)
(* The marker REWRITING ENGINE of dep_logic (markers/multi.py, union.py,   *)
(* any.py, empty.py, utils.py) over ABSTRACT atoms.                        *)
(*                                                                         *)
(* An atom is its denotation: [var, set] = "variable var takes a value in  *)
(* set", plus a flag `mg` saying whether the atom layer can merge it with  *)
(* another atom of the same variable (version / ==, != atoms: yes; `in`    *)
(* atoms: no).  The merge oracle stands for _merge_single_markers.         *)
(*                                                                         *)
(* MEANING    Holds(m, env), NormalForm(m)  (C02, C15, C12 are stated on   *)
(*            these).                                                      *)
(* ALGORITHM  branch-for-branch transcription of: flatten_items, the       *)
(*   constructors MultiMarker(...)/MarkerUnion(...), MultiMarker.of /      *)
(*   MarkerUnion.of fix-point loops, union_simplify / intersect_simplify,  *)
(*   cnf / dnf, intersection(), union() with its three-candidate choice by *)
(*   complexity, Python's operator dispatch between the five marker        *)
(*   classes (incl. the reflected __rand__/__ror__), only / exclude.       *)
(***************************************************************************)
EXTENDS Naturals, Sequences, FiniteSets, TLC

CONSTANTS Vars, Dom          \* variables; common value domain

\* ------------------------------------------------------------------ values
EmptyM == [k |-> "empty", var |-> "", set |-> {}, mg |-> FALSE, ch |-> <<>>]
AnyM   == [k |-> "any",   var |-> "", set |-> {}, mg |-> FALSE, ch |-> <<>>]
Atom(v, s, mg) == [k |-> "atom", var |-> v, set |-> s, mg |-> mg, ch |-> <<>>]
Mk(k, ch) == [k |-> k, var |-> "", set |-> {}, mg |-> FALSE, ch |-> ch]
IsSingle(m) == m.k = "atom"
IsAny(m)    == m.k = "any"
IsEmpty(m)  == m.k = "empty"

\* ----------------------------------------------------------------- MEANING
Envs == [Vars -> Dom]
RECURSIVE Holds(_, _)
Holds(m, e) == CASE m.k = "empty" -> FALSE
                 [] m.k = "any"   -> TRUE
                 [] m.k = "atom"  -> e[m.var] \in m.set
                 [] m.k = "and"   -> \A i \in 1..Len(m.ch) : Holds(m.ch[i], e)
                 [] m.k = "or"    -> \E i \in 1..Len(m.ch) : Holds(m.ch[i], e)
Den(m) == { e \in Envs : Holds(m, e) }
RECURSIVE NormalForm(_)
NormalForm(m) ==
  CASE m.k \in {"empty", "any"} -> TRUE
    [] m.k = "atom" -> m.set # {} /\ m.set # Dom
    [] OTHER -> /\ Len(m.ch) >= 2
                /\ \A i, j \in 1..Len(m.ch) : i # j => m.ch[i] # m.ch[j]
                /\ \A i \in 1..Len(m.ch) : m.ch[i].k \notin {"empty", "any", m.k} /\ NormalForm(m.ch[i])
RECURSIVE HasSingletonCompound(_)
HasSingletonCompound(m) == m.k \in {"and", "or"} /\ (Len(m.ch) = 1 \/ \E i \in 1..Len(m.ch) : HasSingletonCompound(m.ch[i]))
RECURSIVE VarsOf(_)
VarsOf(m) == IF m.k = "atom" THEN {m.var}
             ELSE UNION { VarsOf(m.ch[i]) : i \in 1..Len(m.ch) }

\* --------------------------------------------------------------- ALGORITHM
SeqSet(s) == { s[i] : i \in 1..Len(s) }
InSeq(x, s) == \E i \in 1..Len(s) : s[i] = x
AppendNew(s, x) == IF InSeq(x, s) THEN s ELSE Append(s, x)

\* utils.flatten_items(items, cls): flatten nested compounds of kind k, drop duplicates, keep order
RECURSIVE Flatten(_, _, _)
Flatten(items, k, acc) ==
  IF items = <<>> THEN acc
  ELSE LET it == Head(items) IN
       IF it.k = k THEN Flatten(Tail(items), k, Flatten(it.ch, k, acc))
       ELSE Flatten(Tail(items), k, AppendNew(acc, it))
MultiC(items) == Mk("and", Flatten(items, "and", <<>>))      \* MultiMarker(*items)
UnionC(items) == Mk("or",  Flatten(items, "or",  <<>>))      \* MarkerUnion(*items)

\* _merge_single_markers for two atoms; "none" = not mergeable
MergeAtoms(kind, a, b) ==
  IF a.var # b.var \/ ~a.mg \/ ~b.mg
    THEN (IF a = b THEN [ok |-> TRUE, m |-> a] ELSE [ok |-> FALSE, m |-> AnyM])
  ELSE LET s == IF kind = "and" THEN a.set \cap b.set ELSE a.set \cup b.set IN
       [ok |-> TRUE, m |-> IF s = {} THEN EmptyM ELSE IF s = Dom THEN AnyM
                            ELSE IF s = a.set THEN a ELSE IF s = b.set THEN b ELSE Atom(a.var, s, TRUE)]

\* complexity: (number of marker expressions, number of single-like markers), summed element-wise
RECURSIVE Cx(_)
Cx(m) == IF m.k \in {"and", "or"} /\ Len(m.ch) > 0
           THEN LET cs == [i \in 1..Len(m.ch) |-> Cx(m.ch[i])]
                    RECURSIVE Sum(_, _)
                    Sum(i, j) == IF i > Len(cs) THEN 0 ELSE cs[i][j] + Sum(i + 1, j)
                IN <<Sum(1, 1), Sum(1, 2)>>
           ELSE IF m.k \in {"and", "or"} THEN <<>> ELSE <<1, 1>>
CxLess(a, b) == \* tuple comparison
  IF a = <<>> THEN b # <<>> ELSE IF b = <<>> THEN FALSE
  ELSE a[1] < b[1] \/ (a[1] = b[1] /\ a[2] < b[2])

RECURSIVE And2(_, _), Or2(_, _), MultiOf(_), UnionOf(_), Dnf(_), Cnf(_),
          IntersectSimplify(_, _), UnionSimplify(_, _), MultiLoop(_, _, _), UnionLoop(_, _, _),
          MultiFix(_), UnionFix(_), TryMulti(_, _, _), TryUnion(_, _, _)

Product(ls) ==          \* itertools.product of a sequence of sequences -> sequence of sequences
  LET RECURSIVE P(_)
      P(i) == IF i > Len(ls) THEN << <<>> >>
              ELSE LET rest == P(i + 1)
                       RECURSIVE Outer(_), Inner(_, _)
                       Inner(x, j) == IF j > Len(rest) THEN <<>> ELSE << <<x>> \o rest[j] >> \o Inner(x, j + 1)
                       Outer(a) == IF a > Len(ls[i]) THEN <<>> ELSE Inner(ls[i][a], 1) \o Outer(a + 1)
                   IN Outer(1)
  IN P(1)

Intersection2(a, b) == Dnf(MultiC(<<a, b>>))                  \* utils.intersection
Union2(a, b) ==                                               \* utils.union
  LET RECURSIVE Unwrap(_)
      Unwrap(m) == IF m.k \in {"and", "or"} /\ Len(m.ch) = 1 THEN Unwrap(m.ch[1]) ELSE m
      raw == Unwrap(UnionC(SelectSeq(<<a, b>>, LAMBDA x : ~IsEmpty(x))))
      conj == Cnf(raw)
  IN IF conj.k # "and" THEN conj
     ELSE LET disj == Dnf(conj) IN
          IF disj.k # "or" THEN disj
          ELSE \* min(disjunction, conjunction, unnormalized, key=complexity): first minimal wins
               LET c1 == Cx(disj)  c2 == Cx(conj)  c3 == Cx(raw) IN
               IF ~CxLess(c2, c1) /\ ~CxLess(c3, c1) THEN disj
               ELSE IF ~CxLess(c3, c2) THEN conj ELSE raw

\* x & y with Python's dispatch: type(x).__and__, on NotImplemented type(y).__rand__
And2(x, y) ==
  CASE x.k = "any"   -> y
    [] x.k = "empty" -> x
    [] x.k = "atom"  -> (CASE y.k = "atom"  -> LET r == MergeAtoms("and", x, y) IN IF r.ok THEN r.m ELSE MultiC(<<x, y>>)
                           [] y.k = "any"   -> x                       \* AnyMarker.__rand__ returns other
                           [] y.k = "empty" -> y
                           [] OTHER         -> Intersection2(y, x))    \* Multi/Union.__rand__ = __and__ (operands swapped)
    [] OTHER         -> Intersection2(x, y)                            \* MultiMarker / MarkerUnion.__and__
Or2(x, y) ==
  CASE x.k = "any"   -> x
    [] x.k = "empty" -> y
    [] x.k = "atom"  -> (CASE y.k = "atom"  -> LET r == MergeAtoms("or", x, y) IN IF r.ok THEN r.m ELSE UnionC(<<x, y>>)
                           [] y.k = "any"   -> y
                           [] y.k = "empty" -> x
                           [] OTHER         -> Union2(y, x))
    [] OTHER         -> Union2(x, y)

\* TRUE: when the unique parts reduce to the neutral element and ONE marker is shared, that marker is returned itself
\* (fix commits d85fbe4 / f9a81a3); FALSE: the historical `neutral op Compound(one child)`, which AnyMarker.__and__ /
\* EmptyMarker.__or__ returned unchanged - a one-child compound (HasSingletonCompound)
SharedSingleStandsForItself == TRUE
\* MarkerUnion.intersect_simplify(self, other) -> [ok, m]
IntersectSimplify(u, other) ==
  IF InSeq(other, u.ch) THEN [ok |-> TRUE, m |-> other]
  ELSE IF other.k # "or" THEN [ok |-> FALSE, m |-> AnyM]
  ELSE LET our == SeqSet(u.ch)  their == SeqSet(other.ch) IN
       IF our \subseteq their THEN [ok |-> TRUE, m |-> u]
       ELSE IF their \subseteq our THEN [ok |-> TRUE, m |-> other]
       ELSE IF our \cap their = {} THEN [ok |-> FALSE, m |-> AnyM]
       ELSE LET uniq   == SelectSeq(u.ch, LAMBDA x : x \notin their)
                ouniq  == SelectSeq(other.ch, LAMBDA x : x \notin our)
                common == SelectSeq(u.ch, LAMBDA x : x \in their)
                ui     == And2(UnionC(uniq), UnionC(ouniq))
            IN IF IsSingle(ui) \/ IsEmpty(ui)
                 THEN [ok |-> TRUE, m |-> IF SharedSingleStandsForItself /\ IsEmpty(ui) /\ Len(common) = 1 THEN common[1]
                                          ELSE Or2(ui, UnionC(common))]
               ELSE [ok |-> FALSE, m |-> AnyM]
\* MultiMarker.union_simplify(self, other) -> [ok, m]
UnionSimplify(mm, other) ==
  IF InSeq(other, mm.ch) THEN [ok |-> TRUE, m |-> other]
  ELSE IF other.k # "and" THEN [ok |-> FALSE, m |-> AnyM]
  ELSE LET our == SeqSet(mm.ch)  their == SeqSet(other.ch) IN
       IF our \subseteq their THEN [ok |-> TRUE, m |-> mm]
       ELSE IF their \subseteq our THEN [ok |-> TRUE, m |-> other]
       ELSE IF our \cap their = {} THEN [ok |-> FALSE, m |-> AnyM]
       ELSE LET uniq   == SelectSeq(mm.ch, LAMBDA x : x \notin their)
                ouniq  == SelectSeq(other.ch, LAMBDA x : x \notin our)
                common == SelectSeq(mm.ch, LAMBDA x : x \in their)
                uu     == Or2(MultiC(uniq), MultiC(ouniq))
            IN IF IsSingle(uu) \/ IsAny(uu)
                 THEN [ok |-> TRUE, m |-> IF SharedSingleStandsForItself /\ IsAny(uu) /\ Len(common) = 1 THEN common[1]
                                          ELSE And2(uu, MultiC(common))]
               ELSE [ok |-> FALSE, m |-> AnyM]

\* inner `for i, mark in enumerate(new_markers)` of MultiMarker.of: result [hit, new, empty]
TryMulti(new, marker, i) ==
  IF i > Len(new) THEN [hit |-> FALSE, new |-> new, empty |-> FALSE]
  ELSE LET mark == new[i] IN
    IF IsSingle(mark) THEN
         LET nm == And2(mark, marker) IN
         IF IsEmpty(nm) THEN [hit |-> FALSE, new |-> new, empty |-> TRUE]
         ELSE IF IsSingle(nm) THEN [hit |-> TRUE, new |-> [new EXCEPT ![i] = nm], empty |-> FALSE]
         ELSE TryMulti(new, marker, i + 1)
    ELSE IF mark.k = "or" THEN
         LET r == IntersectSimplify(mark, marker) IN
         IF r.ok THEN [hit |-> TRUE, new |-> [new EXCEPT ![i] = r.m], empty |-> FALSE]
         ELSE TryMulti(new, marker, i + 1)
    ELSE TryMulti(new, marker, i + 1)
\* `for marker in old_markers` : result [new, empty]
MultiLoop(old, j, new) ==
  IF j > Len(old) THEN [new |-> new, empty |-> FALSE]
  ELSE LET marker == old[j] IN
    IF InSeq(marker, new) \/ IsAny(marker) THEN MultiLoop(old, j + 1, new)
    ELSE LET t == TryMulti(new, marker, 1) IN
         IF t.empty THEN [new |-> new, empty |-> TRUE]
         ELSE IF t.hit THEN MultiLoop(old, j + 1, Flatten(t.new, "and", <<>>))
         ELSE MultiLoop(old, j + 1, Append(new, marker))
\* `while old_markers != new_markers`
MultiFix(cur) ==
  LET r == MultiLoop(cur, 1, <<>>) IN
  IF r.empty THEN [new |-> <<>>, empty |-> TRUE]
  ELSE IF r.new = cur THEN [new |-> cur, empty |-> FALSE] ELSE MultiFix(r.new)
MultiOf(items) ==
  LET r == MultiFix(Flatten(items, "and", <<>>)) IN
  IF r.empty THEN EmptyM
  ELSE IF \E i \in 1..Len(r.new) : IsEmpty(r.new[i]) THEN EmptyM
  ELSE IF r.new = <<>> THEN AnyM
  ELSE IF Len(r.new) = 1 THEN r.new[1]
  ELSE MultiC(r.new)

TryUnion(new, marker, i) ==
  IF i > Len(new) THEN [hit |-> FALSE, new |-> new, any |-> FALSE]
  ELSE LET mark == new[i] IN
    IF IsSingle(mark) THEN
         LET nm == Or2(mark, marker) IN
         IF IsAny(nm) THEN [hit |-> FALSE, new |-> new, any |-> TRUE]
         ELSE IF IsSingle(nm) THEN [hit |-> TRUE, new |-> [new EXCEPT ![i] = nm], any |-> FALSE]
         ELSE TryUnion(new, marker, i + 1)
    ELSE IF mark.k = "and" THEN
         LET r == UnionSimplify(mark, marker) IN
         IF r.ok THEN [hit |-> TRUE, new |-> [new EXCEPT ![i] = r.m], any |-> FALSE]
         ELSE TryUnion(new, marker, i + 1)
    ELSE TryUnion(new, marker, i + 1)
UnionLoop(old, j, new) ==
  IF j > Len(old) THEN [new |-> new, any |-> FALSE]
  ELSE LET marker == old[j] IN
    IF InSeq(marker, new) \/ IsEmpty(marker) THEN UnionLoop(old, j + 1, new)
    ELSE LET t == TryUnion(new, marker, 1) IN
         IF t.any THEN [new |-> new, any |-> TRUE]
         ELSE IF t.hit THEN UnionLoop(old, j + 1, Flatten(t.new, "or", <<>>))
         ELSE UnionLoop(old, j + 1, Append(new, marker))
UnionFix(cur) ==
  LET r == UnionLoop(cur, 1, <<>>) IN
  IF r.any THEN [new |-> <<>>, any |-> TRUE]
  ELSE IF r.new = cur THEN [new |-> cur, any |-> FALSE] ELSE UnionFix(r.new)
UnionOf(items) ==
  LET r == UnionFix(Flatten(items, "or", <<>>)) IN
  IF r.any THEN AnyM
  ELSE IF \E i \in 1..Len(r.new) : IsAny(r.new[i]) THEN AnyM
  ELSE IF r.new = <<>> THEN EmptyM
  ELSE IF Len(r.new) = 1 THEN r.new[1]
  ELSE UnionC(r.new)

Cnf(m) ==
  IF m.k = "or" THEN
       LET cs == [i \in 1..Len(m.ch) |-> Cnf(m.ch[i])]
           ls == [i \in 1..Len(cs) |-> IF cs[i].k = "and" THEN cs[i].ch ELSE <<cs[i]>>]
           pr == Product(ls)
       IN MultiOf([i \in 1..Len(pr) |-> UnionOf(pr[i])])
  ELSE IF m.k = "and" THEN MultiOf([i \in 1..Len(m.ch) |-> Cnf(m.ch[i])])
  ELSE m
Dnf(m) ==
  IF m.k = "and" THEN
       LET ds == [i \in 1..Len(m.ch) |-> Dnf(m.ch[i])]
           ls == [i \in 1..Len(ds) |-> IF ds[i].k = "or" THEN ds[i].ch ELSE <<ds[i]>>]
           pr == Product(ls)
       IN UnionOf([i \in 1..Len(pr) |-> MultiOf(pr[i])])
  ELSE IF m.k = "or" THEN UnionOf([i \in 1..Len(m.ch) |-> Dnf(m.ch[i])])
  ELSE m

\* parse_marker / _build_markers: or-groups of &-folded items, then MarkerUnion.of
RECURSIVE Build(_)
Build(t) ==      \* t: raw tree [k, a / ch]
  IF t.k = "atom" THEN t
  ELSE IF t.k = "and" THEN LET RECURSIVE Fold(_, _)
                               Fold(acc, i) == IF i > Len(t.ch) THEN acc ELSE Fold(And2(acc, Build(t.ch[i])), i + 1)
                           IN UnionOf(<<Fold(AnyM, 1)>>)
  ELSE UnionOf([i \in 1..Len(t.ch) |-> And2(AnyM, Build(t.ch[i]))])

\* only / exclude
RECURSIVE Only(_, _), Exclude(_, _)
Only(m, names) ==
  CASE m.k \in {"any", "empty"} -> m
    [] m.k = "atom" -> IF m.var \in names THEN m ELSE AnyM
    [] m.k = "and"  -> MultiOf([i \in 1..Len(m.ch) |-> Only(m.ch[i], names)])
    [] m.k = "or"   -> UnionOf([i \in 1..Len(m.ch) |-> Only(m.ch[i], names)])
Exclude(m, name) ==
  CASE m.k \in {"any", "empty"} -> m
    [] m.k = "atom" -> IF m.var = name THEN AnyM ELSE m
    [] m.k = "and"  -> LET kept == SelectSeq(m.ch, LAMBDA c : ~(IsSingle(c) /\ c.var = name))
                           ex   == [i \in 1..Len(kept) |-> Exclude(kept[i], name)]
                       IN MultiOf(SelectSeq(ex, LAMBDA c : ~IsEmpty(c)))
    [] m.k = "or"   -> LET kept == SelectSeq(m.ch, LAMBDA c : ~(IsSingle(c) /\ c.var = name))
                       IN IF kept = <<>> THEN AnyM ELSE UnionOf([i \in 1..Len(kept) |-> Exclude(kept[i], name)])

\* ----------------------------------------------------------- STATE MACHINE
CONSTANT AtomSel          \* the atoms used to build inputs
Leafs == AtomSel
Raw1  == Leafs \cup { Mk(c, <<a, b>>) : c \in {"and", "or"}, a \in Leafs, b \in Leafs }
Raw2  == Raw1 \cup { Mk(c, <<a, b>>) : c \in {"and", "or"}, a \in Raw1 \ Leafs, b \in Leafs }
Inputs == { Build(t) : t \in Raw2 } \cup {AnyM, EmptyM}

VARIABLES x, y, op, res
nvars == <<x, y, op, res>>
PairsInit == x \in Inputs /\ y \in Inputs /\ op = "init" /\ res = AnyM
PairsNext == /\ op = "init"
             /\ \/ op' = "and" /\ res' = And2(x, y)
                \/ op' = "or"  /\ res' = Or2(x, y)
                \/ \E v \in Vars : x = y /\ op' = "exclude_" \o v /\ res' = Exclude(x, v)
                \/ \E v \in Vars : x = y /\ op' = "only_" \o v /\ res' = Only(x, {v})
             /\ UNCHANGED <<x, y>>
PairsSpec == PairsInit /\ [][PairsNext]_nvars

\* Proj: a larger input set (both children of the top connective may be compound: `(A and X) or (A and Y)`,
\* where union() prefers the conjunctive form `A and (X or Y)`), each input projected on every variable
Raw3    == Raw2 \cup { Mk(c, <<a, b>>) : c \in {"and", "or"}, a \in Raw1 \ Leafs, b \in Raw1 \ Leafs }
\* alternatives that become COMPARABLE only after a variable is eliminated: (a and b and c) or (a and b and d)
Fam3    == { Mk("or", <<Mk("and", <<q[1], q[2], q[3]>>), Mk("and", <<q[1], q[2], q[4]>>)>>) :
               q \in { z \in Leafs \X Leafs \X Leafs \X Leafs : Cardinality({z[1], z[2], z[3], z[4]}) = 4 } }
\* conjunctions of alternatives that share a member and whose remaining parts CANCEL once a guard variable is
\* eliminated:  (s or a1 or g1) and (s or a2 or g2)  --exclude(guard)-->  (s or a1) and (s or a2),  a1 and a2 disjoint
Fam4    == { Mk("and", <<Mk("or", <<z[1], z[2], z[4]>>), Mk("or", <<z[1], z[3], z[5]>>)>>) :
               z \in { w \in Leafs \X Leafs \X Leafs \X Leafs \X Leafs :
                        /\ w[2].var = w[3].var /\ w[2] # w[3] /\ w[4].var = w[5].var /\ w[4] # w[5]
                        /\ Cardinality({w[1].var, w[2].var, w[4].var}) = 3 } }
Inputs3 == { Build(t) : t \in Raw3 \cup Fam3 \cup Fam4 }
ProjInit == x \in Inputs3 /\ y = x /\ op = "init" /\ res = AnyM
ProjNext == /\ op = "init"
            /\ \/ \E v \in Vars : op' = "exclude_" \o v /\ res' = Exclude(x, v)
               \/ \E v \in Vars : op' = "only_" \o v /\ res' = Only(x, {v})
               \/ \E v \in Vars : op' = "onlynot_" \o v /\ res' = Only(x, Vars \ {v})      \* keep all variables but one
            /\ UNCHANGED <<x, y>>
ProjSpec == ProjInit /\ [][ProjNext]_nvars

\* Closure: two registers that start from parse results and are closed under & and | (results become
\* operands), explored breadth-first to a bounded depth (CONSTRAINT ClosureBound)
ClosureInit == x \in Inputs /\ y \in Inputs /\ op = "load" /\ res = AnyM
ClosureNext == \/ op' = "and"  /\ x' = And2(x, y) /\ res' = x' /\ UNCHANGED y
               \/ op' = "or"   /\ x' = Or2(x, y)  /\ res' = x' /\ UNCHANGED y
               \/ op' = "swap" /\ x' = y /\ y' = x /\ UNCHANGED res
ClosureSpec == ClosureInit /\ [][ClosureNext]_nvars
ClosureBound == TLCGet("level") <= 3
Tolerated(m) == ~SharedSingleStandsForItself /\ HasSingletonCompound(m)
ClosureNormal == (NormalForm(x) \/ Tolerated(x)) /\ (NormalForm(y) \/ Tolerated(y))
ClosureSound == [][ (op' = "and" => Den(x') = Den(x) \cap Den(y)) /\ (op' = "or" => Den(x') = Den(x) \cup Den(y)) ]_nvars

\* inputs obtained by parsing are in normal form (C15) and mean what their text means
InputsNormal == (NormalForm(x) \/ Tolerated(x)) /\ (NormalForm(y) \/ Tolerated(y))
\* C02: & and | are sound under evaluation
Sound == /\ (op = "and" => Den(res) = Den(x) \cap Den(y))
         /\ (op = "or"  => Den(res) = Den(x) \cup Den(y))
\* C15: results are in normal form.  (Historical deviation, toggle SharedSingleStandsForItself: union_simplify /
\* intersect_simplify combined the simplified unique part with `MultiMarker(*common)` / `MarkerUnion(*common)`;
\* when the unique part was the neutral element and there was ONE common marker, AnyMarker.__and__ /
\* EmptyMarker.__or__ returned that one-child compound unchanged.)
ResultNormal == op # "init" => NormalForm(res) \/ Tolerated(res)
\* C12: only / exclude
Projections == \A v \in Vars :
   /\ (op = "exclude_" \o v => v \notin VarsOf(res) /\ (v \notin VarsOf(x) => Den(res) = Den(x)))
   /\ (op = "only_" \o v => VarsOf(res) \subseteq {v} /\ Den(x) \subseteq Den(res) /\ (VarsOf(x) \subseteq {v} => Den(res) = Den(x)))
   /\ (op = "onlynot_" \o v => v \notin VarsOf(res) /\ Den(x) \subseteq Den(res) /\ (v \notin VarsOf(x) => Den(res) = Den(x)))
=============================================================================
