------------------------- MODULE MarkerNormalFormMC -------------------------
EXTENDS MarkerNormalForm
\* p: a mergeable variable (version-like / ==,!= atoms); r: atoms the atom layer cannot merge (`in` lists)
SelQuick == { Atom("p", {1}, TRUE), Atom("p", {2, 3}, TRUE), Atom("p", {1, 2}, TRUE),
              Atom("r", {1}, FALSE), Atom("r", {1, 2}, FALSE) }
SelProj  == { Atom("p", {1}, TRUE), Atom("p", {2, 3}, TRUE), Atom("r", {1}, FALSE), Atom("r", {1, 2}, FALSE) }
\* four variables, one atom each (p mergeable, the others not): for the Fam3 inputs of the Proj configuration
SelFour  == { Atom("p", {1}, TRUE), Atom("r", {1}, FALSE), Atom("q", {1}, FALSE), Atom("t", {1}, FALSE) }
\* three variables, two atoms on two of them (for the Fam4 inputs of the Proj configuration)
SelFive  == { Atom("p", {1}, TRUE), Atom("p", {2}, TRUE), Atom("q", {1}, FALSE), Atom("q", {2}, FALSE), Atom("r", {1}, FALSE) }
SelTiny  == { Atom("p", {1}, TRUE), Atom("p", {2, 3}, TRUE), Atom("r", {1}, FALSE) }

=============================================================================
