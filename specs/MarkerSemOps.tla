---------------------------- MODULE MarkerSemOps ----------------------------
(***************************************************************************)
(* PEP 508 marker semantics (the MEANING of C03 / C02 / C11) and the       *)
(* marker <-> specifier bridge of dep_logic/markers/single.py              *)
(* (MarkerExpression._get_specifier, from_specifier) as ALGORITHM.         *)
(*                                                                         *)
(* Environments are records over a finite grid; python_version is always   *)
(* derived from python_full_version.  Version-valued variables compare     *)
(* through the PEP 440 clause semantics of Pep440Ops (as packaging does    *)
(* for python_version, python_full_version, platform_release and           *)
(* implementation_version); `in` / `not in` are substring containment on   *)
(* the TEXT (character sequences), also for version-valued variables;      *)
(* string variables use letter sequences so that equal / substring         *)
(* relations are computed; `extra` compares PEP 685 normalisation classes. *)
(***************************************************************************)
EXTENDS Pep440Ops

CONSTANTS PfvPoints,      \* environment values of python_full_version: set of <<X, Y, Z>>
          RelPoints,      \* environment values of platform_release: set of release sequences
          VerLits,        \* literals for version atoms: set of release sequences (1-3 segments)
          ListItems,      \* python_version values usable in `in` lists: set of <<X, Y>>
          StrMax          \* max length of string literals / environment strings

\* ------------------------------------------------------------------ texts
Digits(n) == IF n < 10 THEN <<n>> ELSE <<n \div 10, n % 10>>
DOT == 10  COMMA == 11  SPACE == 12
RECURSIVE RelText(_)
RelText(rel) == IF Len(rel) = 1 THEN Digits(rel[1]) ELSE Digits(rel[1]) \o <<DOT>> \o RelText(Tail(rel))
RECURSIVE ListText(_)
ListText(items) == IF Len(items) = 1 THEN RelText(items[1]) ELSE RelText(items[1]) \o <<COMMA, SPACE>> \o ListText(Tail(items))
IsSubSeq(x, y) == \E i \in 0..(Len(y) - Len(x)) : SubSeq(y, i + 1, i + Len(x)) = x

Letters == {"a", "b"}
RECURSIVE StrsUpTo(_)
StrsUpTo(n) == IF n = 0 THEN {<<>>}
               ELSE LET S == StrsUpTo(n - 1) IN S \cup { Append(s, x) : s \in { t \in S : Len(t) = n - 1 }, x \in Letters }
Strs == StrsUpTo(StrMax)

\* PEP 685 names: [cls, sp] - two spellings of class 2 normalise to the same name
Names == { [cls |-> 1, sp |-> 1], [cls |-> 2, sp |-> 1], [cls |-> 2, sp |-> 2], [cls |-> 3, sp |-> 1] }
NoName == [cls |-> 0, sp |-> 1]

\* ------------------------------------------------------------------ environments
Envs == [pfv : PfvPoints, rel : RelPoints, os : Strs, extra : {NoName, [cls |-> 1, sp |-> 1], [cls |-> 2, sp |-> 2]},
         extras : { {}, {[cls |-> 1, sp |-> 1]}, {[cls |-> 2, sp |-> 1], [cls |-> 3, sp |-> 1]} }]
EnvVersion(var, e) == CASE var = "python_version" -> <<e.pfv[1], e.pfv[2]>>
                        [] var = "python_full_version" -> e.pfv
                        [] var = "platform_release" -> e.rel

\* ------------------------------------------------------------------ atoms
VerOps  == {"==", "!=", "<", "<=", ">", ">=", "~=", "==*", "!=*"}
VerAtoms == { a \in [kind : {"ver"}, var : {"python_version", "python_full_version", "platform_release"}, op : VerOps,
                     rel : VerLits, rev : BOOLEAN] :
                /\ (a.op = "~=" => Len(a.rel) >= 2)
                /\ (a.op \in {"==*", "!=*"} => Len(a.rel) <= 2)
                /\ (a.rev => a.op \notin {"~=", "==*", "!=*"})               \* both operand orders: comparison operators
                \* python_version operands: X, X.Y and the X.Y.0 spelling the library itself produces when it
                \* re-renders a merged specifier (`python_version != "3.8.0"`)
                /\ (a.var = "python_version" => Len(a.rel) <= 2 \/ (a.rel[3] = 0 /\ a.op \notin {"==*", "!=*"})) }
ListAtoms == { [kind |-> "list", var |-> "python_version", op |-> o, items |-> <<x, y>>] :
                 o \in {"in", "not in"}, x \in ListItems, y \in ListItems } \cup
             { [kind |-> "list", var |-> "python_version", op |-> o, items |-> <<x>>] : o \in {"in", "not in"}, x \in ListItems }
StrAtoms == { a \in [kind : {"str"}, var : {"os_name"}, op : {"==", "!=", "in", "not in"}, lit : Strs, rev : BOOLEAN] : TRUE }
ExtraAtoms == [kind : {"extra"}, op : {"==", "!="}, name : Names, rev : BOOLEAN]
MemberAtoms == [kind : {"member"}, var : {"extras"}, op : {"in", "not in"}, name : Names]
Atoms == VerAtoms \cup ListAtoms \cup StrAtoms \cup ExtraAtoms \cup MemberAtoms

\* ------------------------------------------------------------------ MEANING: Eval
EvalAtom(a, e) ==
  CASE a.kind = "ver" ->
         LET ev == Final(EnvVersion(a.var, e))  lit == Final(a.rel) IN
         IF a.rev THEN Sat(Clause(a.op, ev), lit)        \* Specifier(op + environment value).contains(literal)
         ELSE Sat(Clause(a.op, lit), ev)                 \* Specifier(op + literal).contains(environment value)
    [] a.kind = "list" ->
         LET inside == IsSubSeq(RelText(EnvVersion(a.var, e)), ListText(a.items)) IN
         IF a.op = "in" THEN inside ELSE ~inside
    [] a.kind = "str" ->
         (CASE a.op = "==" -> e.os = a.lit
            [] a.op = "!=" -> e.os # a.lit
            [] a.op = "in" -> IF a.rev THEN IsSubSeq(a.lit, e.os) ELSE IsSubSeq(e.os, a.lit)
            [] a.op = "not in" -> IF a.rev THEN ~IsSubSeq(a.lit, e.os) ELSE ~IsSubSeq(e.os, a.lit))
    [] a.kind = "extra" -> IF a.op = "==" THEN e.extra.cls = a.name.cls ELSE e.extra.cls # a.name.cls
    [] a.kind = "member" -> LET inside == \E n \in e.extras : n.cls = a.name.cls IN IF a.op = "in" THEN inside ELSE ~inside

RECURSIVE Eval(_, _)
Eval(t, e) == CASE t.k = "atom" -> EvalAtom(t.a, e)
                [] t.k = "and"  -> \A i \in 1..Len(t.ch) : Eval(t.ch[i], e)
                [] t.k = "or"   -> \E i \in 1..Len(t.ch) : Eval(t.ch[i], e)

\* ------------------------------------------------------------------ ALGORITHM: the bridge (C11)
\* MarkerExpression._get_specifier for version-like atoms.  The stored operator of a literal-left
\* atom is already reflected by the parser (get_reflect_op), so the view is parse(op' + value).
Reflect(op) == CASE op = "<" -> ">" [] op = "<=" -> ">=" [] op = ">" -> "<" [] op = ">=" -> "<=" [] OTHER -> op
StoredOp(a) == IF a.rev THEN Reflect(a.op) ELSE a.op
SpecifierView(a) ==
  IF a.kind = "ver" THEN Translate(Clause(StoredOp(a), Final(a.rel)))
  ELSE \* python_version in/not in "X.Y, ...": `in` -> ==X.Y.* || ..., `not in` -> !=X.Y.*, ... (an intersection)
       [i \in 1..Len(a.items) |-> Translate(Clause("==*", Final(a.items[i])))[1]]
ViewAdmits(a, v) ==
  IF a.kind = "ver" THEN InRanges(SpecifierView(a), Final(v))
  ELSE IF a.op = "in" THEN InRanges(SpecifierView(a), Final(v)) ELSE ~InRanges(SpecifierView(a), Final(v))
\* `in` on a version variable is substring containment in evaluate(); the specifier view reads the
\* literal as a set of release series.  Named deviation (DESIGN section 6 item 12):
ListViewIsSetOfSeries(a, v) ==
  a.kind = "list" /\ (IsSubSeq(RelText(v), ListText(a.items)) # (\E i \in 1..Len(a.items) : a.items[i] = v))

\* _normalize_python_version_specifier: a python_version atom re-expressed as a python_full_version
\* specifier, used when python_version and python_full_version atoms are merged
\* (== / != get a wildcard, > X.Y becomes >= X.(Y+1), <= X.Y becomes < X.(Y+1); a one-segment
\*  operand "X" compares like "X.0" - fix commit 1f6b13e).
OneSegmentPadsToTwo == TRUE
TrailingZeroIsStripped == TRUE      \* "X.Y.0" is normalised like "X.Y" (fix commit); FALSE: taken as a full version
StripsCompatToo == FALSE            \* TRUE models the short-lived regression that also stripped the ".0" of a ~= operand
NormalizeView(a) ==
  LET short == IF TrailingZeroIsStripped /\ Len(a.rel) = 3 /\ a.rel[3] = 0 /\ (a.op # "~=" \/ StripsCompatToo)
                 THEN SubSeq(a.rel, 1, 2) ELSE a.rel IN
  IF a.kind # "ver" \/ Len(short) > 2 \/ a.op \in {"==*", "!=*"} THEN SpecifierView(a)
  ELSE LET op  == StoredOp(a)
           rel == IF Len(short) = 1 /\ OneSegmentPadsToTwo THEN Append(short, 0) ELSE short
       IN CASE op \in {"==", "!="} -> Translate(Clause(op \o "*", Final(rel)))
            [] op = ">"  -> Translate(Clause(">=", Final(Bump(rel))))
            [] op = "<=" -> Translate(Clause("<", Final(Bump(rel))))
            [] OTHER     -> Translate(Clause(op, Final(rel)))

\* MarkerExpression.from_specifier(name, range) for a simple range; "" = None
PadTo3(rel) == IF Len(rel) >= 3 THEN rel ELSE rel \o [i \in 1..(3 - Len(rel)) |-> 0]
FromRange(name, r) ==       \* r is a Pep440Ops range; result [ok, a]
  LET none == [ok |-> FALSE, a |-> [kind |-> "ver", var |-> name, op |-> "==", rel |-> <<0>>, rev |-> FALSE]]
      mk(op, v, pad) == [ok |-> TRUE, a |-> [kind |-> "ver", var |-> name, op |-> op,
                                             rel |-> IF name = "python_full_version" /\ pad THEN PadTo3(v.rel) ELSE v.rel, rev |-> FALSE]]
  IN IF r.lo = <<>> /\ r.hi = <<>> THEN none
     ELSE IF r.lo = <<>> THEN mk(IF r.ui THEN "<=" ELSE "<", r.hi[1], TRUE)
     ELSE IF r.hi = <<>> THEN mk(IF r.li THEN ">=" ELSE ">", r.lo[1], TRUE)
     ELSE LET s == SimplifiedRange(r) IN
          CASE s.k = "eq"     -> mk("==", r.lo[1], TRUE)
            [] s.k = "compat" -> mk("~=", r.lo[1], FALSE)          \* no zero padding for ~= (fix commit)
            [] OTHER          -> none
=============================================================================
