--------------------------- MODULE MarkerSemantics ---------------------------
(***************************************************************************)
(* State machines over MarkerSemOps (PEP 508 Eval, the specifier view,     *)
(* from_specifier, the python_version normalisation):                      *)
(*   Atoms     every atom of the alphabet evaluated in every environment   *)
(*   Trees     depth-2 and/or trees                                        *)
(*   FromSpec  simple ranges / parsed clauses through from_specifier       *)
(***************************************************************************)
EXTENDS MarkerSemOps

\* ----------------------------------------------------------- STATE MACHINES
VARIABLES item, phase, table
svars == <<item, phase, table>>
EnvSeq == SetToSeq(Envs)
ASSUME PrintT(<<"ENVS", EnvSeq>>)

\* Atoms: one atom per behaviour, evaluated in every environment
AtomsInit == item \in { [k |-> "atom", a |-> a] : a \in Atoms } /\ phase = "item" /\ table = <<>>
EvalNext  == /\ phase = "item" /\ phase' = "evaluated"
             /\ table' = [i \in 1..Len(EnvSeq) |-> Eval(item, EnvSeq[i])]
             /\ UNCHANGED item
AtomsSpec == AtomsInit /\ [][EvalNext]_svars

\* meaning-layer sanity (C03): the reflection table is an involution and a literal-left ordering
\* atom means the same as its mirrored literal-right atom
ReflectionSound == phase = "evaluated" /\ item.k = "atom" /\ item.a.kind = "ver" /\ item.a.rev =>
   /\ Reflect(Reflect(item.a.op)) = item.a.op
   /\ \A i \in 1..Len(EnvSeq) :
        table[i] = EvalAtom([item.a EXCEPT !.rev = FALSE, !.op = Reflect(item.a.op)], EnvSeq[i])
\* C11: the specifier view of a python_version / python_full_version atom admits exactly the values
\* on which the atom evaluates true
BridgeValues(var) == IF var = "python_version" THEN { <<v[1], v[2]>> : v \in PfvPoints } ELSE PfvPoints
ViewExact == phase = "evaluated" /\ item.k = "atom" /\ item.a.kind \in {"ver", "list"} /\ item.a.var \in {"python_version", "python_full_version"} =>
   \A i \in 1..Len(EnvSeq) :
      LET v == EnvVersion(item.a.var, EnvSeq[i]) IN
        ListViewIsSetOfSeries(item.a, v) \/ ViewAdmits(item.a, v) = table[i]

\* C02 (atom layer): the python_full_version reading of a python_version atom admits exactly the
\* interpreters on which the atom is true
NormalizeExact == phase = "evaluated" /\ item.k = "atom" /\ item.a.kind = "ver" /\ item.a.var = "python_version" =>
   \A i \in 1..Len(EnvSeq) : InRanges(NormalizeView(item.a), Final(EnvSeq[i].pfv)) = table[i]

\* Trees: and/or trees of depth <= 2 over a few atoms
CONSTANT TreeAtomSel     \* a small subset of Atoms
Leafs  == { [k |-> "atom", a |-> a] : a \in TreeAtomSel }
Level1 == Leafs \cup { [k |-> c, ch |-> <<x, y>>] : c \in {"and", "or"}, x \in Leafs, y \in Leafs }
Level2 == Level1 \cup { [k |-> c, ch |-> <<x, y>>] : c \in {"and", "or"}, x \in Level1, y \in Level1 }
TreesInit == item \in Level2 /\ phase = "item" /\ table = <<>>
TreesSpec == TreesInit /\ [][EvalNext]_svars
\* meaning-layer sanity: and/or are pointwise
TreePointwise == phase = "evaluated" /\ item.k # "atom" =>
   \A i \in 1..Len(EnvSeq) : table[i] = (IF item.k = "and" THEN \A j \in 1..Len(item.ch) : Eval(item.ch[j], EnvSeq[i])
                                                            ELSE \E j \in 1..Len(item.ch) : Eval(item.ch[j], EnvSeq[i]))

\* FromSpec: simple specifiers over the literal pool -> from_specifier -> atom (or None),
\* the atom evaluated in every environment
BoundVersions == { Final(r) : r \in VerLits }
FromSpecRanges ==
  { Rg(<<>>, <<v>>, FALSE, i) : v \in BoundVersions, i \in BOOLEAN } \cup
  { Rg(<<v>>, <<>>, i, FALSE) : v \in BoundVersions, i \in BOOLEAN } \cup
  { Rg(<<uv[1]>>, <<uv[2]>>, f[1], f[2]) : uv \in { p \in BoundVersions \X BoundVersions : VLess(p[1], p[2]) }, f \in BOOLEAN \X BOOLEAN } \cup
  { Rg(<<v>>, <<v>>, TRUE, TRUE) : v \in BoundVersions }
\* a specifier that was PARSED from one clause remembers its source text (`simplified`): from_specifier
\* re-renders that clause; python_full_version operands are zero-padded except for ~= and wildcards
FromClause(name, cl) ==
  LET pad == name = "python_full_version" /\ cl.op \notin {"~=", "==*", "!=*"}
  IN [kind |-> "ver", var |-> name, op |-> cl.op, rel |-> IF pad THEN PadTo3(cl.v.rel) ELSE cl.v.rel, rev |-> FALSE]
FromSpecClauses == { c \in [op : VerOps, v : BoundVersions] : ValidClause(c) /\ (c.op \in {"==*", "!=*"} => Len(c.v.rel) <= 2) }
\* computed two-range unions (holes): from_specifier re-renders them as `!= V` or `!= X.Y.*` when simple
FromSpecHoles == { [lo |-> uv[1], hi |-> uv[2], ui |-> f[1], li |-> f[2]] :
                     uv \in { q \in BoundVersions \X BoundVersions : VLess(q[1], q[2]) \/ q[1] = q[2] }, f \in BOOLEAN \X BOOLEAN }
HoleAtom(name, h) ==
  LET s == SimplifiedHole(Rg(<<>>, <<h.lo>>, FALSE, h.ui), Rg(<<h.hi>>, <<>>, h.li, FALSE)) IN
  IF s.k \in {"ne", "newild"}
    THEN [ok |-> TRUE, a |-> [kind |-> "ver", var |-> name, op |-> s.cl.op,
                              rel |-> IF name = "python_full_version" /\ s.cl.op = "!=" THEN PadTo3(s.cl.v.rel) ELSE s.cl.v.rel, rev |-> FALSE]]
    ELSE [ok |-> FALSE, a |-> [kind |-> "ver", var |-> name, op |-> "==", rel |-> <<0>>, rev |-> FALSE]]
FromSpecInit == /\ item \in { [k |-> "fromspec", name |-> n, r |-> r] : n \in {"python_version", "python_full_version"}, r \in FromSpecRanges } \cup
                            { [k |-> "fromhole", name |-> n, h |-> h] : n \in {"python_version", "python_full_version"},
                                 h \in { g \in FromSpecHoles : VLess(g.lo, g.hi) \/ (~g.ui /\ ~g.li) } } \cup
                            { [k |-> "fromclause", name |-> n, cl |-> c] : n \in {"python_version", "python_full_version"}, c \in FromSpecClauses }
                /\ phase = "item" /\ table = <<>>
FromSpecNext == /\ phase = "item" /\ phase' = "converted"
                /\ table' = IF item.k = "fromspec"
                               THEN LET f == FromRange(item.name, item.r)
                                    IN IF ~f.ok THEN <<>> ELSE [i \in 1..Len(EnvSeq) |-> EvalAtom(f.a, EnvSeq[i])]
                             ELSE IF item.k = "fromhole"
                               THEN LET f == HoleAtom(item.name, item.h)
                                    IN IF ~f.ok THEN <<>> ELSE [i \in 1..Len(EnvSeq) |-> EvalAtom(f.a, EnvSeq[i])]
                               ELSE [i \in 1..Len(EnvSeq) |-> EvalAtom(FromClause(item.name, item.cl), EnvSeq[i])]
                /\ UNCHANGED item
FromSpecSpec == FromSpecInit /\ [][FromSpecNext]_svars
\* C11: from_specifier yields None or an atom true exactly on the versions the specifier admits
FromSpecExact == phase = "converted" /\ table # <<>> =>
   \A i \in 1..Len(EnvSeq) :
      LET v == Final(EnvVersion(item.name, EnvSeq[i])) IN
      table[i] = (IF item.k = "fromspec" THEN InRange(item.r, v)
                  ELSE IF item.k = "fromhole" THEN (VLess(v, item.h.lo) \/ (item.h.ui /\ VEq(v, item.h.lo)) \/ VLess(item.h.hi, v) \/ (item.h.li /\ VEq(v, item.h.hi)))
                  ELSE Sat(item.cl, v))
=============================================================================
