-------------------------- MODULE MarkerSemanticsMC --------------------------
(* Model constants for MarkerSemantics (tuples cannot be written in a .cfg file). *)
EXTENDS MarkerSemantics
PfvQuick   == { <<2, 7, 18>>, <<3, 1, 0>>, <<3, 7, 9>>, <<3, 8, 0>>, <<3, 8, 1>>, <<3, 9, 0>>, <<3, 9, 1>>, <<3, 10, 0>>, <<3, 10, 2>>, <<3, 11, 0>>, <<4, 0, 0>> }
RelQuick   == { <<5, 10>>, <<6, 1, 0>> }
LitsQuick  == { <<3>>, <<3, 8>>, <<3, 10>>, <<3, 8, 1>>, <<3, 9, 0>>, <<3, 9, 1>>, <<4>> }
ItemsQuick == { <<3, 8>>, <<3, 10>>, <<2, 7>> }
PfvSmall   == { <<2, 7, 18>>, <<3, 8, 0>>, <<3, 9, 0>>, <<3, 10, 0>>, <<3, 10, 2>> }
RelOne     == { <<5, 10>> }
TreeSelWide == { [kind |-> "ver", var |-> "python_version", op |-> ">=", rel |-> <<3, 8>>, rev |-> FALSE],
                 [kind |-> "ver", var |-> "python_full_version", op |-> "<=", rel |-> <<3, 10>>, rev |-> TRUE],
                 [kind |-> "ver", var |-> "python_full_version", op |-> "<", rel |-> <<3, 8>>, rev |-> FALSE],
                 [kind |-> "str", var |-> "os_name", op |-> "!=", lit |-> <<"a">>, rev |-> FALSE],
                 [kind |-> "str", var |-> "os_name", op |-> "!=", lit |-> <<"b">>, rev |-> FALSE],
                 [kind |-> "str", var |-> "os_name", op |-> "in", lit |-> <<"a", "b">>, rev |-> FALSE],
                 \* a one-segment python_version operand next to python_full_version atoms (parse-time folding normalises it),
                 \* and a `not in` whose literal contains the `!=` literals above
                 [kind |-> "ver", var |-> "python_version", op |-> ">", rel |-> <<3>>, rev |-> FALSE],
                 [kind |-> "str", var |-> "os_name", op |-> "not in", lit |-> <<"a", "b">>, rev |-> FALSE],
                 [kind |-> "extra", op |-> "==", name |-> [cls |-> 2, sp |-> 1], rev |-> FALSE] }
TreeSelQuick == { [kind |-> "ver", var |-> "python_version", op |-> ">=", rel |-> <<3, 8>>, rev |-> FALSE],
                  [kind |-> "ver", var |-> "python_full_version", op |-> "<", rel |-> <<3, 10>>, rev |-> TRUE],
                  [kind |-> "str", var |-> "os_name", op |-> "!=", lit |-> <<"a">>, rev |-> FALSE],
                  [kind |-> "extra", op |-> "==", name |-> [cls |-> 2, sp |-> 1], rev |-> FALSE] }
=============================================================================
