------------------------- MODULE MarkerSessionTrace -------------------------
(***************************************************************************)
(* Trace validation (binding B3, code -> spec) for MARKER sessions         *)
(* recorded from the real library (harness/drive_marker.py).               *)
(*                                                                         *)
(* State of the session machine: the registers created so far, each with   *)
(* its truth table over the session's environment grid (logged from the    *)
(* real evaluate()), the set of variables it mentions and its shape tree.  *)
(* One action per public operation:                                        *)
(*   parse(text)  and(a,b)  or(a,b)  reparse(a)  only(a,names)             *)
(*   exclude(a,name)  without_extras(a)  law(a,b)                          *)
(* The specification is the MEANING of those operations on truth tables    *)
(* and shapes; it is total: a failing clause is printed as                 *)
(*   <<"REJECT", sid, l, {<<property, clause>>}>>  and the session goes on.*)
(***************************************************************************)
EXTENDS Naturals, Sequences, FiniteSets, TLC, Json, IOUtils, TLCExt

Doc      == JsonDeserialize(IOEnv.TRACE_FILE)
Sessions == Doc.sessions

VARIABLES sid, l, regs
mvars == <<sid, l, regs>>
Evs == Sessions[sid].events

SeqToSet(q) == { q[i] : i \in DOMAIN q }
TAnd(t, u)  == [i \in DOMAIN t |-> t[i] /\ u[i]]
TOr(t, u)   == [i \in DOMAIN t |-> t[i] \/ u[i]]
AllFalse(t) == \A i \in DOMAIN t : ~t[i]
AllTrue(t)  == \A i \in DOMAIN t : t[i]
Implies(t, u) == \A i \in DOMAIN t : t[i] => u[i]

(***************************************************************************)
(* C15 normal form of a shape tree [k, key, n, ch]:                        *)
(*   empty | any | atom | ==/!= atom group of >= 2 values |                *)
(*   and/or with >= 2 pairwise distinct children, none of them empty, any  *)
(*   or a compound of the same kind, each child in normal form.            *)
(***************************************************************************)
RECURSIVE NormalForm(_)
NormalForm(t) ==
  CASE t.k \in {"empty", "any", "atom"} -> TRUE
    [] t.k \in {"eqgroup", "negroup"} -> t.n >= 2 /\ t.nd = t.n        \* at least two values, all distinct
    [] t.k \in {"and", "or"} ->
         /\ Len(t.ch) >= 2
         /\ \A i, j \in 1..Len(t.ch) : i # j => t.ch[i].key # t.ch[j].key
         /\ \A i \in 1..Len(t.ch) : t.ch[i].k \notin {"empty", "any", t.k} /\ NormalForm(t.ch[i])
    [] OTHER -> FALSE
RECURSIVE HasEmptyInside(_)
HasEmptyInside(t) == t.k \in {"and", "or"} /\ \E i \in 1..Len(t.ch) : t.ch[i].k = "empty" \/ HasEmptyInside(t.ch[i])

Related(i, j) == IF i < j THEN i \in SeqToSet(Evs[j].eq) ELSE j \in SeqToSet(Evs[i].eq)

Failing(ev) ==
  IF ev.exc = "Timeout" THEN {}                  \* no verdict: performance is not a property
  ELSE IF ev.exc # "" THEN
     (CASE ev.op \in {"and", "or"} -> {<<"C02", "raises">>}
        [] ev.op = "reparse" -> {<<"C07", "raises">>}
        [] ev.op \in {"only", "exclude", "without_extras"} -> {<<"C12", "raises">>}
        [] ev.op = "parse" -> {<<"C03", "parse_raises">>}
        [] OTHER -> {<<"C14", "raises">>})
  ELSE
  LET t    == ev.table
      vs   == SeqToSet(ev.vars)
      eqs  == SeqToSet(ev.eq)
      eqr  == SeqToSet(ev.eq_rev)
      hs   == SeqToSet(ev.hash_eq)
      prev == { j \in 1..(l - 1) : Evs[j].op # "law" /\ Evs[j].exc = "" }
      ta   == IF ev.a > 0 THEN regs[ev.a].table ELSE t
      tb   == IF ev.b > 0 THEN regs[ev.b].table ELSE t
      va   == IF ev.a > 0 THEN regs[ev.a].vars ELSE {}
      names == SeqToSet(ev.names)
  IN
  \* ---- C02: & and | are sound under evaluation; is_empty / is_any are truthful
  (IF ev.op = "and" /\ t # TAnd(ta, tb) THEN {<<"C02", "and_table">>} ELSE {}) \cup
  (IF ev.op = "or"  /\ t # TOr(ta, tb)  THEN {<<"C02", "or_table">>} ELSE {}) \cup
  (IF ev.is_empty /\ ~AllFalse(t) THEN {<<"C02", "is_empty_but_satisfiable">>} ELSE {}) \cup
  (IF ev.is_any /\ ~AllTrue(t) THEN {<<"C02", "is_any_but_falsifiable">>} ELSE {}) \cup
  \* ---- C03 (parse events only): evaluate() of the parsed marker = packaging's verdict per environment
  (IF ev.op = "parse" /\ ev.ref # <<>> /\ t # ev.ref THEN {<<"C03", "evaluate_vs_reference">>} ELSE {}) \cup
  \* ---- C07: text round trip
  (IF ev.op = "reparse" /\ t # ta THEN {<<"C07", "reparse_table">>} ELSE {}) \cup
  (IF ev.op = "reparse" /\ ~ev.pkg_accepts /\ ~regs[ev.a].is_empty /\ ~regs[ev.a].is_any THEN {<<"C07", "packaging_rejects_text">>} ELSE {}) \cup
  (IF ev.op = "reparse" /\ ev.has_empty_token /\ ~regs[ev.a].is_empty THEN {<<"C07", "empty_token_inside">>} ELSE {}) \cup
  (IF ev.op = "reparse" /\ regs[ev.a].is_empty /\ ~ev.is_empty THEN {<<"C07", "empty_roundtrip">>} ELSE {}) \cup
  (IF ev.op = "reparse" /\ regs[ev.a].is_any /\ ~ev.is_any THEN {<<"C07", "any_roundtrip">>} ELSE {}) \cup
  \* ---- C12: variable elimination
  (IF ev.op = "only" /\ ~(vs \subseteq names) THEN {<<"C12", "only_leaks_variable">>} ELSE {}) \cup
  (IF ev.op = "only" /\ ~Implies(ta, t) THEN {<<"C12", "only_not_implied">>} ELSE {}) \cup
  (IF ev.op = "only" /\ va \subseteq names /\ t # ta THEN {<<"C12", "only_changes_meaning">>} ELSE {}) \cup
  (IF ev.op \in {"exclude", "without_extras"} /\ (names \cap vs) # {} THEN {<<"C12", "exclude_leaks_variable">>} ELSE {}) \cup
  (IF ev.op \in {"exclude", "without_extras"} /\ (names \cap va) = {} /\ t # ta THEN {<<"C12", "exclude_changes_meaning">>} ELSE {}) \cup
  \* ---- C15: normal form of every result
  (IF ev.op # "reparse" /\ ~NormalForm(ev.shape) THEN {<<"C15", "normal_form">>} ELSE {}) \cup
  (IF ev.is_empty # (ev.shape.k = "empty") \/ ev.is_any # (ev.shape.k = "any") THEN {<<"C15", "flags_vs_shape">>} ELSE {}) \cup
  \* ---- C13: equality is an equivalence compatible with hashing and with meaning
  (IF eqs # eqr THEN {<<"C13", "eq_symmetric">>} ELSE {}) \cup
  (IF ~ev.eq_self THEN {<<"C13", "eq_reflexive">>} ELSE {}) \cup
  (IF ~(eqs \subseteq hs) THEN {<<"C13", "eq_implies_hash">>} ELSE {}) \cup
  (IF \E j \in eqs : j \in prev /\ regs[j].table # t THEN {<<"C13", "eq_but_different_meaning">>} ELSE {}) \cup
  (IF \E i \in eqs, j \in prev : j # i /\ i \in prev /\ Related(i, j) /\ j \notin eqs THEN {<<"C13", "eq_transitive">>} ELSE {})

TraceInit == /\ sid \in 1..Len(Sessions) /\ l = 1 /\ regs = <<>>
TraceNext ==
  /\ l <= Len(Evs)
  /\ LET ev == Evs[l]
         bad == IF ev.op = "law" /\ ev.exc = ""
                  THEN (IF regs[ev.a].table # regs[ev.b].table THEN {<<ev.law_pid, ev.law>>} ELSE {})   \* C14 laws / C13 interchangeability
                  ELSE Failing(ev)
     IN /\ (bad # {} => PrintT(<<"REJECT", Sessions[sid].sid, l, bad>>))
        /\ regs' = Append(regs, IF ev.exc # "" \/ ev.op = "law"
                                  THEN [table |-> <<>>, vars |-> {}, is_empty |-> FALSE, is_any |-> FALSE]
                                  ELSE [table |-> ev.table, vars |-> SeqToSet(ev.vars), is_empty |-> ev.is_empty, is_any |-> ev.is_any])
        /\ l' = l + 1
        /\ UNCHANGED sid
TraceSpec == TraceInit /\ [][TraceNext]_mvars

\* every event of every session was consumed: one state per event plus one initial state per
\* session (the harness writes the expected total into the document; a recursive sum over
\* thousands of sessions overflows TLC's evaluation stack)
AllConsumed == TLCGet("stats").distinct = Doc.expected_states
=============================================================================
