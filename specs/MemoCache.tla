------------------------------ MODULE MemoCache ------------------------------
(***************************************************************************)
(* Memoisation in dep_logic.markers (C10): the process-wide lru_caches     *)
(*   parse_marker(text), _merge_single_markers(m1, m2, kind), cnf, dnf     *)
(* are keyed by the operands' __eq__/__hash__, and MarkerExpression        *)
(* equality IGNORES the `reversed` flag (operand order of the source text) *)
(* and the lazily filled `_specifier`.  A hit returns the OBJECT computed  *)
(* for the first caller.                                                   *)
(*                                                                         *)
(* Model: atoms `python_version >= b` written either way round             *)
(* ([b, rev]); an operation parses two texts and combines them with & or   *)
(* |.  The merge result is one of the operand objects (the tighter / the   *)
(* looser bound; the first operand on a tie), so it carries that operand's *)
(* `rev` flag.  The cache key is the real one: the operands WITHOUT rev.   *)
(*                                                                         *)
(* Behaviours: every history of up to MaxHist operations; each operation   *)
(* is observed (text and meaning of its result) and compared with what the *)
(* same operation yields from empty caches.                                *)
(***************************************************************************)
EXTENDS Naturals, Sequences, FiniteSets, TLC

CONSTANTS Bounds, MaxHist

Atoms == [b : Bounds, rev : BOOLEAN]
Ops   == [kind : {"and", "or"}, x : Atoms, y : Atoms]
Key(o) == <<o.kind, o.x.b, o.y.b>>                      \* __eq__/__hash__ ignore `reversed`

\* _merge_single_markers on a miss: result_specifier == marker1.specifier -> marker1, == marker2.specifier -> marker2
Compute(o) ==
  IF o.kind = "and" THEN (IF o.x.b >= o.y.b THEN o.x ELSE o.y)
  ELSE (IF o.x.b <= o.y.b THEN o.x ELSE o.y)
Text(a)    == <<a.b, a.rev>>                            \* __str__ renders the operand order
Meaning(a) == a.b

VARIABLES cache, hist, last
cvars == <<cache, hist, last>>
NoObs == [warm |-> <<0, FALSE>>, cold |-> <<0, FALSE>>, hit |-> FALSE, text_ok |-> TRUE, meaning_ok |-> TRUE]

Init == cache = <<>> /\ hist = <<>> /\ last = NoObs
Lookup(k) == IF \E i \in 1..Len(cache) : cache[i].k = k
               THEN (CHOOSE i \in 1..Len(cache) : cache[i].k = k) ELSE 0
Do(o) ==
  /\ Len(hist) < MaxHist
  /\ LET i == Lookup(Key(o))
         res == IF i = 0 THEN Compute(o) ELSE cache[i].v          \* Hit returns the first caller's object
     IN /\ cache' = IF i = 0 THEN Append(cache, [k |-> Key(o), v |-> res]) ELSE cache
        /\ hist' = Append(hist, o)
        /\ last' = [warm |-> Text(res), cold |-> Text(Compute(o)), hit |-> i # 0,
                    text_ok |-> Text(res) = Text(Compute(o)), meaning_ok |-> Meaning(res) = Meaning(Compute(o))]
Next == \E o \in Ops : Do(o)
Spec == Init /\ [][Next]_cvars

\* C10, meaning half: a hit never changes which environments the result selects
MeaningTransparent == last.meaning_ok
\* C10, text half: holds iff equal keys imply equal operand spelling - NOT true of the code (named deviation)
TextTransparent == last.text_ok
\* the deviation, characterised: the text differs only when an earlier operation with the same key
\* was written with the other operand order
FirstCallerReversed == ~last.text_ok =>
   /\ last.hit
   /\ \E i \in 1..(Len(hist) - 1) : Key(hist[i]) = Key(hist[Len(hist)]) /\ hist[i] # hist[Len(hist)]
   /\ last.warm[1] = last.cold[1]
=============================================================================
