------------------------------ MODULE MemoGroups ------------------------------
(***************************************************************************)
(* Memoisation in dep_logic.markers (C10), second model: ==-groups.        *)
(*                                                                         *)
(* `x == "a" or x == "b"` is ONE object (EqualityMarkerUnion) whose values *)
(* are an OrderedSet: iteration (and so the text) follows insertion order, *)
(* equality and hash are those of a SET.  The cnf / dnf caches behind      *)
(* utils.union() / intersection() are keyed by marker equality, so two     *)
(* compounds that differ only in the value order of a group are ONE key,   *)
(* and a hit returns the term built for the first caller - with the first  *)
(* caller's value order.                                                   *)
(*                                                                         *)
(* Model: a group is a sequence of two distinct letters; an operation      *)
(* builds `(g & X) | Y` ("and_or") or `(g | X) & Y` ("or_and") through the *)
(* operators, X and Y being fixed atoms on other variables.  The result    *)
(* carries the group as written (Compute) or, on a hit, as first written.  *)
(* Behaviours: every history of up to MaxHist operations, each observed    *)
(* (text = value order, meaning = value set) and compared with the same    *)
(* operation from empty caches.                                            *)
(***************************************************************************)
EXTENDS Naturals, Sequences, FiniteSets, TLC

CONSTANTS Letters, MaxHist

Groups == { <<a, b>> : a \in Letters, b \in Letters } \ { <<a, a>> : a \in Letters }
Ops    == [shape : {"and_or", "or_and"}, g : Groups]
SetOf(g) == { g[i] : i \in 1..Len(g) }
\* EqualityMarkerUnion.__eq__ / __hash__: the values as a set.  The cached term is the GROUP itself (cnf / dnf recurse into
\* the children of a compound, and `cnf(group)` / `dnf(group)` are cache entries of their own), so both shapes share it.
Key(o) == SetOf(o.g)
Compute(o) == o.g                            \* from empty caches the group prints as written
Text(g) == g
Meaning(g) == SetOf(g)

VARIABLES cache, hist, last
gvars == <<cache, hist, last>>
NoObs == [warm |-> <<>>, cold |-> <<>>, hit |-> FALSE, text_ok |-> TRUE, meaning_ok |-> TRUE]
Init == cache = <<>> /\ hist = <<>> /\ last = NoObs
Lookup(k) == IF \E i \in 1..Len(cache) : cache[i].k = k THEN (CHOOSE i \in 1..Len(cache) : cache[i].k = k) ELSE 0
Do(o) ==
  /\ Len(hist) < MaxHist
  /\ LET i == Lookup(Key(o))
         res == IF i = 0 THEN Compute(o) ELSE cache[i].v
     IN /\ cache' = IF i = 0 THEN Append(cache, [k |-> Key(o), v |-> res]) ELSE cache
        /\ hist' = Append(hist, o)
        /\ last' = [warm |-> Text(res), cold |-> Text(Compute(o)), hit |-> i # 0,
                    text_ok |-> Text(res) = Text(Compute(o)), meaning_ok |-> Meaning(res) = Meaning(Compute(o))]
Next == \E o \in Ops : Do(o)
Spec == Init /\ [][Next]_gvars

\* C10, meaning half
MeaningTransparent == last.meaning_ok
\* C10, text half - NOT true of the code (named deviation FirstCallerGroupOrder, a recorded finding)
TextTransparent == last.text_ok
\* the deviation, characterised: same value set, other order, earlier in the history (whatever the shape)
FirstCallerGroupOrder == ~last.text_ok =>
   /\ last.hit
   /\ \E i \in 1..(Len(hist) - 1) : Key(hist[i]) = Key(hist[Len(hist)]) /\ hist[i].g # hist[Len(hist)].g
   /\ SetOf(last.warm) = SetOf(last.cold)
=============================================================================
