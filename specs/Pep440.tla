------------------------------- MODULE Pep440 -------------------------------
(***************************************************************************)
(* State machines over Pep440Ops (operators live there so that             *)
(* MarkerSemantics can reuse the PEP 440 order and clause semantics):      *)
(*   Clauses  one clause per behaviour, evaluated on every final candidate *)
(*            by the translation (algorithm) and by PEP 440 (meaning);     *)
(*   Render   every range / hole over the version universe, rendered by    *)
(*            the transcribed heuristics and parsed back.                  *)
(***************************************************************************)
EXTENDS Pep440Ops

\* ----------------------------------------------------------- STATE MACHINES
VARIABLES cl, lo, hi, fl, phase, obs
qvars == <<cl, lo, hi, fl, phase, obs>>
V0 == Stable(0, <<0>>)
CandSeq == SetToSortSeq(Cands, VLess)
ASSUME PrintT(<<"CANDS", [i \in 1..Len(CandSeq) |-> CandSeq[i].rel]>>)

\* Clauses: one clause per behaviour; the step evaluates every candidate both ways
Ops == {">", ">=", "<", "<=", "==", "!=", "~=", "==*", "!=*"}
ClausesInit == /\ cl \in { c \in [op : Ops, v : Versions] : ValidClause(c) }
               /\ lo = V0 /\ hi = V0 /\ fl = <<FALSE, FALSE>> /\ phase = "clause" /\ obs = [algo |-> <<>>, want |-> <<>>]
ClausesNext == /\ phase = "clause" /\ phase' = "evaluated"
               /\ obs' = [algo |-> [i \in 1..Len(CandSeq) |-> InRanges(Translate(cl), CandSeq[i])],
                          want |-> [i \in 1..Len(CandSeq) |-> Sat(cl, CandSeq[i])]]
               /\ UNCHANGED <<cl, lo, hi, fl>>
ClausesSpec == ClausesInit /\ [][ClausesNext]_qvars
\* C04: the translation of every clause admits exactly the final releases PEP 440 admits
ClauseExact == phase = "evaluated" => obs.algo = obs.want

\* Render: every range [lo, hi] / hole (-inf, lo) | (hi, +inf) over the version universe
RenderInit == /\ cl = Clause("==", V0) /\ lo \in Versions /\ hi \in Versions /\ fl \in BOOLEAN \X BOOLEAN
              /\ phase \in {"range", "hole"} /\ obs = [algo |-> <<>>, want |-> <<>>]
              /\ (VLess(lo, hi) \/ (VEq(lo, hi) /\ lo = hi /\ (IF phase = "range" THEN fl = <<TRUE, TRUE>> ELSE fl = <<FALSE, FALSE>>)))
RenderNext == /\ phase \in {"range", "hole"} /\ phase' = (IF phase = "range" THEN "range_done" ELSE "hole_done")
              /\ obs' = IF phase = "range"
                          THEN LET r == Rg(<<lo>>, <<hi>>, fl[1], fl[2]) IN
                               [algo |-> <<SimplifiedRange(r).k>>, want |-> <<RangeRoundTrips(r)>>]
                          ELSE LET l == Rg(<<>>, <<lo>>, FALSE, fl[1])  r == Rg(<<hi>>, <<>>, fl[2], FALSE) IN
                               [algo |-> <<SimplifiedHole(l, r).k>>, want |-> <<HoleRoundTrips(l, r)>>]
              /\ UNCHANGED <<cl, lo, hi, fl>>
RenderSpec == RenderInit /\ [][RenderNext]_qvars
\* C06: every rendering parses back to the same specifier
CompatWithPostUpperBound ==      \* the named deviation above
  /\ phase = "range_done" /\ obs.algo[1] = "compat" /\ IsPost(hi)
  \* a post-release bound inside a hole member rendered on its own is the same deviation
RenderRoundTrips == phase \in {"range_done", "hole_done"} => obs.want[1] \/ CompatWithPostUpperBound
=============================================================================
