------------------------------ MODULE Pep440Ops ------------------------------
(***************************************************************************)
(* PEP 440 versions as STRUCTURES, clause semantics, and the translation / *)
(* rendering code of dep_logic.specifiers (__init__.py _from_pkg_specifier,*)
(* range.py RangeSpecifier._simplified_form/__str__, union.py              *)
(* UnionSpecifier._simplified_form/__str__).                               *)
(*                                                                         *)
(* A version is [ep, rel, pre, post, dev]: epoch, release segments,        *)
(* pre (0 none, 1 = a1, 2 = rc1), post (0 none, 1 = .post1),               *)
(* dev (0 none, 1 = .dev1).  Text (spelling: rc/c/pre, -1/.rev1, upper     *)
(* case, leading v, zero padding) is a dimension of the REPLAY, not of the *)
(* meaning: the specification's translation works on the parsed structure, *)
(* as the code does since the "fix:" commit that replaced the textual      *)
(* segment arithmetic (DESIGN section 6, item 6).                          *)
(*                                                                         *)
(* MEANING    VLess (PEP 440 total order), Sat (clause semantics on final  *)
(*            candidates).                                                 *)
(* ALGORITHM  Translate (clause -> ranges), SimplifiedRange / SimplifiedUnion*)
(*            (range(s) -> shortest clause text), Reparse.                 *)
(***************************************************************************)
EXTENDS Naturals, Integers, Sequences, FiniteSets, SequencesExt, TLC

CONSTANTS RelVals, MaxRelLen, Epochs, Pres, Posts, Devs, CandVals, MaxCandLen

RECURSIVE SeqsOfLen(_, _)
SeqsOfLen(S, n) == IF n = 0 THEN {<<>>} ELSE { Append(s, x) : s \in SeqsOfLen(S, n - 1), x \in S }
Releases == UNION { SeqsOfLen(RelVals, n) : n \in 1..MaxRelLen }
Versions == [ep : Epochs, rel : Releases, pre : Pres, post : Posts, dev : Devs]
Final(r)  == [ep |-> 0, rel |-> r, pre |-> 0, post |-> 0, dev |-> 0]
Cands == { Final(r) : r \in UNION { SeqsOfLen(CandVals, n) : n \in 1..MaxCandLen } }

\* ----------------------------------------------------------------- MEANING
M == 5                                              \* pad releases to a common length
Pad(r, n) == [i \in 1..n |-> IF i <= Len(r) THEN r[i] ELSE 0]
PreKey(v)  == IF v.pre = 0 THEN (IF v.post = 0 /\ v.dev # 0 THEN 0 ELSE 9) ELSE v.pre
DevKey(v)  == IF v.dev = 0 THEN 9 ELSE v.dev
KeySeq(v)  == <<v.ep>> \o Pad(v.rel, M) \o <<PreKey(v), v.post, DevKey(v)>>
SeqLess(a, b) == \E i \in 1..Len(a) : a[i] < b[i] /\ \A j \in 1..(i - 1) : a[j] = b[j]
VLess(u, v) == SeqLess(KeySeq(u), KeySeq(v))
VEq(u, v)   == KeySeq(u) = KeySeq(v)

Clause(op, v) == [op |-> op, v |-> v]               \* op: > >= < <= == != ~= ==* !=*
PrefixMatch(c, ep, rel) == c.ep = ep /\ SubSeq(Pad(c.rel, M), 1, Len(rel)) = rel
Sat(cl, c) ==
  CASE cl.op = ">"   -> VLess(cl.v, c)
    [] cl.op = ">="  -> ~VLess(c, cl.v)
    [] cl.op = "<"   -> VLess(c, cl.v)
    [] cl.op = "<="  -> ~VLess(cl.v, c)
    [] cl.op = "=="  -> VEq(c, cl.v)
    [] cl.op = "!="  -> ~VEq(c, cl.v)
    [] cl.op = "==*" -> PrefixMatch(c, cl.v.ep, cl.v.rel)
    [] cl.op = "!=*" -> ~PrefixMatch(c, cl.v.ep, cl.v.rel)
    [] cl.op = "~="  -> ~VLess(c, cl.v) /\ PrefixMatch(c, cl.v.ep, SubSeq(cl.v.rel, 1, Len(cl.v.rel) - 1))
ValidClause(cl) ==
  /\ (cl.op \in {"==*", "!=*"} => cl.v.pre = 0 /\ cl.v.post = 0 /\ cl.v.dev = 0)
  /\ (cl.op = "~=" => Len(cl.v.rel) >= 2)

\* --------------------------------------------------------------- ALGORITHM
\* a bound is <<>> (None) or <<v>>; a range [lo, hi, li, ui]
Rg(lo, hi, li, ui) == [lo |-> lo, hi |-> hi, li |-> li, ui |-> ui]
Stable(ep, rel) == [ep |-> ep, rel |-> rel, pre |-> 0, post |-> 0, dev |-> 0]
Bump(rel) == [rel EXCEPT ![Len(rel)] = rel[Len(rel)] + 1]
\* _from_pkg_specifier: one clause -> one range or the two ranges of a union
Translate(cl) ==
  LET v == cl.v IN
  CASE cl.op = ">"   -> <<Rg(<<v>>, <<>>, FALSE, FALSE)>>
    [] cl.op = ">="  -> <<Rg(<<v>>, <<>>, TRUE, FALSE)>>
    [] cl.op = "<"   -> <<Rg(<<>>, <<v>>, FALSE, FALSE)>>
    [] cl.op = "<="  -> <<Rg(<<>>, <<v>>, FALSE, TRUE)>>
    [] cl.op = "=="  -> <<Rg(<<v>>, <<v>>, TRUE, TRUE)>>
    [] cl.op = "!="  -> <<Rg(<<>>, <<v>>, FALSE, FALSE), Rg(<<v>>, <<>>, FALSE, FALSE)>>
    [] cl.op = "==*" -> <<Rg(<<Stable(v.ep, Append(v.rel, 0))>>, <<Stable(v.ep, Append(Bump(v.rel), 0))>>, TRUE, FALSE)>>
    [] cl.op = "!=*" -> <<Rg(<<>>, <<Stable(v.ep, Append(v.rel, 0))>>, FALSE, FALSE),
                          Rg(<<Stable(v.ep, Append(Bump(v.rel), 0))>>, <<>>, TRUE, FALSE)>>
    [] cl.op = "~="  -> <<Rg(<<v>>, <<Stable(v.ep, Append(Bump(SubSeq(v.rel, 1, Len(v.rel) - 1)), 0))>>, TRUE, FALSE)>>
InRange(r, c) == /\ (r.lo = <<>> \/ VLess(r.lo[1], c) \/ (r.li /\ VEq(r.lo[1], c)))
                 /\ (r.hi = <<>> \/ VLess(c, r.hi[1]) \/ (r.ui /\ VEq(r.hi[1], c)))
InRanges(rs, c) == \E i \in 1..Len(rs) : InRange(rs[i], c)

\* ---- rendering.  The text is modelled as what it parses to: a tag plus the clause it spells.
StableSeq(v, n) == Pad(<<v.ep>> \o v.rel, n)
FirstDiff(a, b) ==      \* first_different_index: index (0-based) of first difference, len when none
  IF \E i \in 1..Len(a) : a[i] # b[i] THEN (CHOOSE i \in 1..Len(a) : a[i] # b[i] /\ \A j \in 1..(i-1) : a[j] = b[j]) - 1
  ELSE Len(a)
IsPre(v)  == v.pre # 0 \/ v.dev # 0          \* Version.is_prerelease
IsPost(v) == v.post # 0                       \* Version.is_postrelease
\* !=X.* shortening refuses post-release bounds and guards the segment index (fix commit 298a9c4)
HoleRenderGuardsPost == TRUE
\* the !=X.Y.* prefix is taken from the zero-padded segments (fix commit: `<1||>=1.1.0` was rendered `!=1.*`,
\* Python's release[:first_different] silently truncating); FALSE models the historical slice
WildcardPrefixFromPadded == TRUE
\* ~=X.Y shortening still accepts a post-release upper bound: `>=1.2,<2.0.post1` renders as `~=1.2`.
\* The repository's own test test_range_str_normalization[value10-~=1.2] pins this rendering, so it is a
\* recorded finding (known_findings.json), modelled as the code behaves and named here:
CompatRenderGuardsPost == FALSE

\* RangeSpecifier._simplified_form for a two-sided range (one-sided ranges render as one clause)
SimplifiedRange(r) ==
  LET mn == r.lo[1]  mx == r.hi[1]
      n  == IF Len(mn.rel) > Len(mx.rel) THEN Len(mn.rel) + 1 ELSE Len(mx.rel) + 1
      a  == StableSeq(mn, n)  b == StableSeq(mx, n)
      fd == FirstDiff(a, b)
  IN IF VEq(mn, mx) THEN [k |-> "eq", cl |-> Clause("==", mn)]
     ELSE IF ~r.li \/ r.ui THEN [k |-> "plain", cl |-> Clause("==", mn)]
     ELSE IF fd >= n - 1 \/ fd = 0 THEN [k |-> "plain", cl |-> Clause("==", mn)]
     ELSE IF b[fd + 1] - a[fd + 1] # 1 THEN [k |-> "plain", cl |-> Clause("==", mn)]
     ELSE IF /\ \A i \in (fd + 2)..n : b[i] = 0
             /\ ~IsPre(mx) /\ (CompatRenderGuardsPost => ~IsPost(mx))
             /\ Len(mn.rel) = fd + 1
          THEN [k |-> "compat", cl |-> Clause("~=", mn)]
     ELSE [k |-> "plain", cl |-> Clause("==", mn)]

\* does the rendered range parse back to the same range?
RangeRoundTrips(r) ==
  IF r.lo = <<>> \/ r.hi = <<>> THEN TRUE
  ELSE LET s == SimplifiedRange(r) IN
    CASE s.k = "plain"  -> TRUE                                  \* ">=min,<max": the bounds themselves
      [] s.k = "eq"     -> r.li /\ r.ui
      [] s.k = "compat" -> LET t == Translate(s.cl)[1] IN VEq(t.hi[1], r.hi[1]) /\ VEq(t.lo[1], r.lo[1]) /\ r.li /\ ~r.ui

\* UnionSpecifier._simplified_form for the hole shape  (-inf, lo) | (hi, +inf)
SimplifiedHole(left, right) ==
  LET lm == left.hi[1]  rm == right.lo[1]
      n  == IF Len(lm.rel) > Len(rm.rel) THEN Len(lm.rel) + 1 ELSE Len(rm.rel) + 1
      a  == StableSeq(lm, n)  b == StableSeq(rm, n)
      fd == FirstDiff(a, b)
  IN IF VEq(lm, rm) THEN [k |-> "ne", cl |-> Clause("!=", lm)]
     ELSE IF ~(~left.ui /\ right.li) THEN [k |-> "plain", cl |-> Clause("!=", lm)]
     ELSE IF IsPre(lm) \/ IsPre(rm) \/ (HoleRenderGuardsPost /\ (IsPost(lm) \/ IsPost(rm))) THEN [k |-> "plain", cl |-> Clause("!=", lm)]
     ELSE IF fd >= n THEN (IF HoleRenderGuardsPost THEN [k |-> "plain", cl |-> Clause("!=", lm)]
                           ELSE [k |-> "raises", cl |-> Clause("!=", lm)])          \* right_stable[first_different]: IndexError
     ELSE IF fd > 0 /\ b[fd + 1] - a[fd + 1] = 1 /\ fd + 2 <= n /\ (\A i \in (fd + 2)..n : a[i] = 0 /\ b[i] = 0)
          THEN [k |-> "newild", cl |-> Clause("!=*", Stable(lm.ep, IF WildcardPrefixFromPadded THEN SubSeq(Pad(lm.rel, M), 1, fd)
                                                                         ELSE SubSeq(lm.rel, 1, IF fd < Len(lm.rel) THEN fd ELSE Len(lm.rel))))]
     ELSE [k |-> "plain", cl |-> Clause("!=", lm)]
HoleRoundTrips(left, right) ==
  LET s == SimplifiedHole(left, right) IN
    CASE s.k = "plain"  -> RangeRoundTrips(left) /\ RangeRoundTrips(right)
      [] s.k = "raises" -> FALSE
      [] s.k = "ne"     -> ~left.ui /\ ~right.li
      [] s.k = "newild" -> LET t == Translate(s.cl) IN
                             /\ Len(s.cl.v.rel) >= 1
                             /\ VEq(t[1].hi[1], left.hi[1]) /\ VEq(t[2].lo[1], right.lo[1])
=============================================================================
