-------------------------- MODULE PlatformFamilies --------------------------
(***************************************************************************)
(* The "other" operating-system families of dep_logic/tags/platform.py    *)
(* (FreeBSD, NetBSD, OpenBSD, DragonFly, Haiku, Illumos, Generic) - the    *)
(* part of Platform.parse / __str__ / compatible_tags / markers that        *)
(* PlatformOps (the documented families of C09 / C16 / C18) leaves out.    *)
(* No listed property quantifies over these families; the module is bound  *)
(* to the code by the extra check X03 (DRIFT lines, never VIOLATION).      *)
(*                                                                         *)
(* The specification says what the code DOES and names every place where   *)
(* that is not what a reader of the class names would expect:              *)
(*   ReleaseTwice        the tag of a release-carrying family repeats the  *)
(*                       release (`freebsd_13_13_x86_64`): str(os) already *)
(*                       contains it.  OpenBSD, whose class has no __str__,*)
(*                       is the one family where it appears once.          *)
(*   OpenBsdDropsRelease str(Platform) of OpenBSD has no release, so the   *)
(*                       name does not parse back (raw ValueError).        *)
(*   IllumosUnparseable  parse() calls Illumos(release) - the dataclass    *)
(*                       needs (release, arch): TypeError for every name.  *)
(*   IllumosIsDarwin     sys_platform of Illumos is "darwin".              *)
(*   GenericCaseFolded   str() lower-cases a Generic name; parse does not. *)
(*   IllumosOldHasNoTag  release "4_x": the tag list is EMPTY.             *)
(*                                                                         *)
(* A name or tag is a sequence of underscore-separated tokens; a token is  *)
(* a sequence of atoms (so "13.2-RELEASE" = <<"13",".","2","-","RELEASE">>)*)
(* rendered by concatenation.                                              *)
(***************************************************************************)
EXTENDS Naturals, Sequences, FiniteSets, TLC

ReleaseFams == {"freebsd", "netbsd", "openbsd", "dragonfly", "haiku"}       \* _os_mapping minus illumos
Archs == {"x86_64", "aarch64", "armv6l", "loongarch64", "x86"}             \* a slice of the Arch enum
Releases == { <<"13">>, <<"9", ".", "3">>, <<"13", ".", "2", "-", "RELEASE">> }
IllumosReleases == { <<"5">>, <<"5", "11">>, <<"4", "1">>, <<"6", "0">> }    \* underscore tokens of the release
GenericNames == {"plan9", "solaris", "linux", "Plan9"}

Lower(s) == CASE s = "RELEASE" -> "release" [] s = "Plan9" -> "plan9" [] OTHER -> s
LowerTok(t) == [i \in 1..Len(t) |-> Lower(t[i])]
ToNat(s) == CASE s = "4" -> 4 [] s = "5" -> 5 [] s = "6" -> 6 [] OTHER -> 0
NatStr(n) == CASE n = 1 -> "1" [] n = 2 -> "2" [] n = 3 -> "3" [] OTHER -> "?"

Cfg(fam, rel, oarch, name, arch) == [fam |-> fam, rel |-> rel, oarch |-> oarch, name |-> name, arch |-> arch]
NoCfg == Cfg("", <<>>, "", "", "")
Configs ==
  { Cfg(f, r, "", "", a) : f \in ReleaseFams, r \in Releases, a \in Archs } \cup
  { Cfg("illumos", r, "i86pc", "", a) : r \in IllumosReleases, a \in Archs } \cup
  { Cfg("generic", <<>>, "", n, a) : n \in GenericNames, a \in Archs }

ArchToks(a) == IF a = "x86_64" THEN << <<"x86">>, <<"64">> >> ELSE << <<a>> >>
Singletons(seq) == [i \in 1..Len(seq) |-> <<seq[i]>>]
Atoms(rel) == SelectSeq(rel, LAMBDA x : x \notin {".", "-"})               \* release.replace(".", "_").replace("-", "_")

\* str(os): the dataclass __str__ methods (OpenBsd inherits Os.__str__ = lower-cased class name)
OsStr(c) ==
  CASE c.fam = "openbsd" -> << <<"openbsd">> >>
    [] c.fam \in ReleaseFams -> << <<c.fam>>, c.rel >>
    [] c.fam = "illumos" -> << <<"illumos">> >> \o Singletons(c.rel) \o << <<c.oarch>> >>
    [] OTHER -> << <<Lower(c.name)>> >>
\* Platform.__str__: f"{self.os}_{self.arch}" (the arm64 / amd64 spellings are for Macos / Windows only)
Str(c) == OsStr(c) \o ArchToks(c.arch)

\* Arch.parse on the re-joined tokens; "?" = ValueError
ArchParse(toks) ==
  IF toks = << <<"x86">>, <<"64">> >> \/ toks = << <<"amd64">> >> THEN "x86_64"
  ELSE IF toks \in { << <<"i386">> >>, << <<"i686">> >> } THEN "x86"
  ELSE IF toks = << <<"arm64">> >> THEN "aarch64"
  ELSE IF Len(toks) = 1 /\ Len(toks[1]) = 1 /\ toks[1][1] \in Archs THEN toks[1][1]
  ELSE "?"

Ok(c) == [k |-> "ok", cfg |-> c]
Err(e) == [k |-> e, cfg |-> NoCfg]
\* the final else-branch of Platform.parse (names of the documented families never reach it)
Parse(name) ==
  IF Len(name) < 2 THEN Err("ValueError")                                    \* os_, arch = platform.split("_", 1)
  ELSE LET os == name[1]  rest == Tail(name) IN
    IF Len(os) = 1 /\ os[1] \in ReleaseFams \cup {"illumos"}
    THEN LET rel == rest[1]  arch == ArchParse(Tail(rest)) IN                \* release, _, arch = arch.partition("_")
         IF os[1] = "illumos" THEN Err("TypeError")                           \* Illumos(release): arch missing; evaluated first
         ELSE IF arch = "?" THEN Err("ValueError")                           \* not inside the try: raw ValueError
         ELSE Ok(Cfg(os[1], rel, "", "", arch))
    ELSE LET arch == ArchParse(rest) IN
         IF arch = "?" THEN Err("PlatformError")
         ELSE IF Len(os) = 1 THEN Ok(Cfg("generic", <<>>, "", os[1], arch)) ELSE Err("?")

\* Platform.compatible_tags for these families: a list of tags (each a sequence of tokens)
Tags(c) ==
  CASE c.fam \in ReleaseFams ->        \* f"{str(os_).lower()}_{release}_{arch}", release with "." and "-" replaced by "_"
         << [i \in 1..Len(OsStr(c)) |-> LowerTok(OsStr(c)[i])] \o Singletons(Atoms(c.rel)) \o ArchToks(c.arch) >>
    [] c.fam = "illumos" ->
         IF Len(c.rel) = 1               \* release.split("_", 1) fails: the generic form
         THEN << [i \in 1..Len(OsStr(c)) |-> LowerTok(OsStr(c)[i])] \o Singletons(c.rel) \o ArchToks(c.arch) >>
         ELSE IF ToNat(c.rel[1]) >= 5    \* SunOS 5 == Solaris 2
         THEN << << <<"solaris">>, <<NatStr(ToNat(c.rel[1]) - 3)>> >> \o Singletons(Tail(c.rel)) \o ArchToks(c.arch) \o << <<"64bit">> >> >>
         ELSE <<>>
    [] OTHER -> << OsStr(c) \o ArchToks(c.arch) >>

\* Platform.markers() (is_current() aside): the class tests of the cached properties
Markers(c) ==
  [os_name |-> "posix",
   sys_platform |-> IF c.fam = "illumos" THEN "darwin" ELSE "linux",
   platform_machine |-> c.arch,
   platform_system |-> "Linux"]

\* ------------------------------------------------------------- named deviations
ReleaseTwice(c) == c.fam \in ReleaseFams \ {"openbsd"} \/ (c.fam = "illumos" /\ Len(c.rel) = 1)
OpenBsdDropsRelease(c) == c.fam = "openbsd"
IllumosUnparseable(c) == c.fam = "illumos"
IllumosIsDarwin(c) == c.fam = "illumos"
GenericCaseFolded(c) == c.fam = "generic" /\ Lower(c.name) # c.name
IllumosOldHasNoTag(c) == c.fam = "illumos" /\ Len(c.rel) = 2 /\ ToNat(c.rel[1]) < 5

\* how often the atoms of the release occur in a tag (case-insensitively), as a multiset count
Flat(tag) == LET F[i \in 0..Len(tag)] == IF i = 0 THEN <<>> ELSE F[i - 1] \o tag[i] IN F[Len(tag)]
Count(seq, x) == Cardinality({ i \in 1..Len(seq) : Lower(seq[i]) = Lower(x) })
RelAtoms(c) == IF c.fam = "illumos" THEN c.rel ELSE Atoms(c.rel)
ReleaseOnce(c, tag) == \A i \in 1..Len(RelAtoms(c)) : Count(Flat(tag), RelAtoms(c)[i]) = Count(RelAtoms(c), RelAtoms(c)[i])

\* ----------------------------------------------------------- STATE MACHINE
\* Grid: cfg --Name--> named --Parse--> parsed --Tags--> tagged; one configuration per behaviour.
\* Names: every spelled name (family x release x architecture spelling, valid or not) --Parse--> parsed.
VARIABLES c, phase, name, parsed, tags
fvars == <<c, phase, name, parsed, tags>>

GridInit == c \in Configs /\ phase = "cfg" /\ name = <<>> /\ parsed = Err("") /\ tags = <<>>
DoName  == phase = "cfg" /\ phase' = "named" /\ name' = Str(c) /\ UNCHANGED <<c, parsed, tags>>
DoParse == phase = "named" /\ phase' = "parsed" /\ parsed' = Parse(name) /\ UNCHANGED <<c, name, tags>>
DoTags  == phase = "parsed" /\ phase' = "tagged" /\ tags' = Tags(c) /\ UNCHANGED <<c, name, parsed>>
GridNext == DoName \/ DoParse \/ DoTags
GridSpec == GridInit /\ [][GridNext]_fvars

ArchSpellings == { << <<"x86">>, <<"64">> >>, << <<"amd64">> >>, << <<"arm64">> >>, << <<"i686">> >>, << <<"aarch64">> >>,
                   << <<"loongarch64">> >>, << <<"sparc">> >>, << <<"64">> >>, <<>> }
AllSpelled ==      \* ("linux" alone is an alias of the documented families and never reaches this branch)
  { << <<f>>, r >> \o a : f \in ReleaseFams \cup {"illumos"}, r \in Releases, a \in ArchSpellings } \cup
  { << <<f>> >> \o a : f \in ReleaseFams \cup GenericNames, a \in ArchSpellings } \cup
  { << <<f>>, <<"13">>, <<"1">> >> \o a : f \in {"freebsd"}, a \in ArchSpellings }
SpelledNames == AllSpelled \ { << <<"linux">> >> }
NamesInit == name \in SpelledNames /\ phase = "named" /\ c = NoCfg /\ parsed = Err("") /\ tags = <<>>
NamesNext == DoParse
NamesSpec == NamesInit /\ [][NamesNext]_fvars

\* the name parses back to the same platform exactly where no deviation applies
RoundTripExact == phase \in {"parsed", "tagged"} /\ c # NoCfg =>
  ((parsed = Ok(c)) <=> ~(OpenBsdDropsRelease(c) \/ IllumosUnparseable(c) \/ GenericCaseFolded(c)))
\* ... and the deviations fail the way the code fails
DeviationsExact == phase \in {"parsed", "tagged"} /\ c # NoCfg =>
  /\ (OpenBsdDropsRelease(c) => parsed = Err("ValueError"))
  /\ (IllumosUnparseable(c) => parsed.k = "TypeError")
  /\ (GenericCaseFolded(c) => parsed.k = "ok" /\ parsed.cfg = [c EXCEPT !.name = Lower(c.name)])
\* one tag, family first, architecture last, release once - except under the named deviations
OneTag == phase = "tagged" =>
  /\ (Len(tags) = 0 <=> IllumosOldHasNoTag(c))
  /\ Len(tags) <= 1
  /\ (Len(tags) = 1 /\ ~(c.fam = "illumos" /\ Len(c.rel) = 2) =>
        /\ tags[1][1] = <<Lower(IF c.fam = "generic" THEN c.name ELSE c.fam)>>
        /\ SubSeq(tags[1], Len(tags[1]) - Len(ArchToks(c.arch)) + 1, Len(tags[1])) = ArchToks(c.arch)
        /\ (c.fam # "generic" => (ReleaseOnce(c, tags[1]) <=> ~ReleaseTwice(c))))
\* a parsed name never yields a platform of a documented family, and errors are of the three kinds
ParseTotal == phase = "parsed" => parsed.k \in {"ok", "ValueError", "TypeError", "PlatformError"}
MarkersFixed == c # NoCfg => Markers(c).os_name = "posix" /\ (Markers(c).sys_platform = "darwin" <=> IllumosIsDarwin(c))
=============================================================================
