SPECIFICATION GridSpec
INVARIANT RoundTripExact
INVARIANT DeviationsExact
INVARIANT OneTag
INVARIANT ParseTotal
INVARIANT MarkersFixed
CHECK_DEADLOCK FALSE
