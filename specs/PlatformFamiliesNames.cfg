SPECIFICATION NamesSpec
INVARIANT ParseTotal
CHECK_DEADLOCK FALSE
