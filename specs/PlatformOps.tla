----------------------------- MODULE PlatformOps -----------------------------
(***************************************************************************)
(* Platform tags of dep_logic/tags/platform.py.                            *)
(*                                                                         *)
(* MEANING  (PEP 600 / PEP 656 / macOS rules as packaging.tags orders      *)
(*   them): DeclTags(cfg) = a declarative SET of tags + a priority order.  *)
(* ALGORITHM  AlgoTags(cfg) = transcription of Platform.compatible_tags    *)
(*   (the per-OS generation loops, legacy aliases at minors 5/12/17,       *)
(*   Arch.get_minimum_manylinux_minor, Arch.get_mac_binary_formats),       *)
(*   Score = EnvSpec._evaluate_platform (index in list + "any" last),      *)
(*   PlatCompare = the platform part of EnvSpec.compare,                   *)
(*   Str/Parse = Platform.__str__/parse on underscore-separated tokens.    *)
(*                                                                         *)
(* A tag is [f, major, minor, x]: f the family ("manylinux" = PEP 600,     *)
(* "manylinux1/2010/2014", "linux", "musllinux", "macosx", "win32",        *)
(* "win_amd64", "win_arm64", "any"), x the architecture or binary format.  *)
(***************************************************************************)
EXTENDS Naturals, Integers, Sequences, FiniteSets, SequencesExt, TLC

CONSTANTS MaxGlibcMinor, MaxMuslMinor, MaxMacMajor

LinuxArchs == {"x86_64", "aarch64", "armv7l", "ppc64le", "ppc64", "s390x", "riscv64"}
MacArchs   == {"x86_64", "aarch64"}              \* Arch.Aarch64 renders as arm64 on macOS/Windows
WinArchs   == {"x86", "x86_64", "aarch64"}

Cfg(os, major, minor, arch) == [os |-> os, major |-> major, minor |-> minor, arch |-> arch]
Configs ==
  { Cfg("manylinux", 2, m, a) : m \in 5..MaxGlibcMinor, a \in LinuxArchs } \cup
  { Cfg("musllinux", 1, m, a) : m \in 1..MaxMuslMinor, a \in LinuxArchs } \cup
  { Cfg("macos", 10, m, a) : m \in 4..16, a \in MacArchs } \cup
  { Cfg("macos", M, m, a) : M \in 11..MaxMacMajor, m \in {0, 3}, a \in MacArchs } \cup
  { Cfg("windows", 0, 0, a) : a \in WinArchs }

Tag(f, major, minor, x) == [f |-> f, major |-> major, minor |-> minor, x |-> x]
AnyTag == Tag("any", 0, 0, "")

\* ----------------------------------------------------------------- MEANING
GlibcFloor(arch) == IF arch \in {"x86_64", "x86"} THEN 5 ELSE 17       \* PEP 600 / packaging: 2.5 vs 2.17
LegacyAlias(k) == CASE k = 5 -> "manylinux1" [] k = 12 -> "manylinux2010" [] k = 17 -> "manylinux2014" [] OTHER -> ""
MacArchName(arch) == IF arch = "aarch64" THEN "arm64" ELSE arch
\* claimed formats (legacy fat* formats are not claimed), in packaging's per-release order
ClaimedFormats(arch) == IF arch = "x86_64" THEN <<"x86_64", "intel", "universal2", "universal">>
                        ELSE <<"arm64", "universal2">>
FatFormats == {"fat64", "fat32"}

DeclSet(c) ==
  CASE c.os = "manylinux" ->
         { Tag("manylinux", 2, k, c.arch) : k \in GlibcFloor(c.arch)..c.minor } \cup
         { Tag(LegacyAlias(k), 0, 0, c.arch) : k \in { j \in GlibcFloor(c.arch)..c.minor : LegacyAlias(j) # "" } } \cup
         { Tag("linux", 0, 0, c.arch) }
    [] c.os = "musllinux" ->
         { Tag("musllinux", 1, k, c.arch) : k \in 1..c.minor } \cup { Tag("linux", 0, 0, c.arch) }
    [] c.os = "macos" /\ c.major = 10 ->
         { Tag("macosx", 10, k, ClaimedFormats(c.arch)[i]) : k \in 4..c.minor, i \in 1..Len(ClaimedFormats(c.arch)) }
    [] c.os = "macos" /\ c.major >= 11 ->
         { Tag("macosx", M, 0, ClaimedFormats(c.arch)[i]) : M \in 11..c.major, i \in 1..Len(ClaimedFormats(c.arch)) } \cup
         (IF c.arch = "x86_64"
            THEN { Tag("macosx", 10, k, ClaimedFormats(c.arch)[i]) : k \in 4..16, i \in 1..Len(ClaimedFormats(c.arch)) }
            ELSE { Tag("macosx", 10, k, "universal2") : k \in 4..16 })
    [] c.os = "windows" ->
         { Tag(CASE c.arch = "x86" -> "win32" [] c.arch = "x86_64" -> "win_amd64" [] c.arch = "aarch64" -> "win_arm64", 0, 0, "") }

\* priority (newest first): for manylinux the glibc minor, PEP 600 tag before its legacy alias,
\* linux_<arch> last; for macOS the release, then the position of the format
AliasMinor(f) == CASE f = "manylinux1" -> 5 [] f = "manylinux2010" -> 12 [] f = "manylinux2014" -> 17 [] OTHER -> 0
FormatPos(x) == CASE x \in {"x86_64", "arm64"} -> 0 [] x = "intel" -> 1 [] x = "universal2" -> 4 [] x = "universal" -> 5 [] OTHER -> 9
Before(t, u) ==       \* t has strictly higher priority than u
  CASE t.f = "linux" -> FALSE
    [] u.f = "linux" -> TRUE
    [] t.f = "macosx" -> \/ t.major > u.major
                         \/ t.major = u.major /\ t.minor > u.minor
                         \/ t.major = u.major /\ t.minor = u.minor /\ FormatPos(t.x) < FormatPos(u.x)
    [] OTHER -> LET kt == IF t.f = "manylinux" THEN 2 * t.minor + 1 ELSE 2 * AliasMinor(t.f)
                    ku == IF u.f = "manylinux" THEN 2 * u.minor + 1 ELSE 2 * AliasMinor(u.f)
                IN kt > ku
DeclTags(c) == SetToSortSeq(DeclSet(c), Before)
Ordered(c) == c.os \in {"manylinux", "macos"}        \* the list order is claimed only for these

\* --------------------------------------------------------------- ALGORITHM
MinManylinuxMinor(arch) ==     \* Arch.get_minimum_manylinux_minor (None modelled as -1)
  IF arch \in {"aarch64", "armv7l", "ppc64", "ppc64le", "s390x", "riscv64"} THEN 17
  ELSE IF arch \in {"x86", "x86_64"} THEN 5 ELSE -1
MacBinaryFormats(arch) ==      \* Arch.get_mac_binary_formats
  LET base == IF arch = "aarch64" THEN <<"arm64">> ELSE <<arch>>
      f1 == IF arch = "x86_64" THEN base \o <<"intel", "fat64", "fat32">> ELSE base
      f2 == IF arch \in {"x86_64", "aarch64"} THEN f1 \o <<"universal2">> ELSE f1
  IN IF arch = "x86_64" THEN f2 \o <<"universal">> ELSE f2

RECURSIVE ManylinuxLoop(_, _, _)       \* for minor in range(os.minor, min_minor - 1, -1)
ManylinuxLoop(minor, minMinor, arch) ==
  IF minor < minMinor THEN <<>>
  ELSE <<Tag("manylinux", 2, minor, arch)>>
       \o (IF minor = 12 THEN <<Tag("manylinux2010", 0, 0, arch)>> ELSE <<>>)
       \o (IF minor = 17 THEN <<Tag("manylinux2014", 0, 0, arch)>> ELSE <<>>)
       \o (IF minor = 5 THEN <<Tag("manylinux1", 0, 0, arch)>> ELSE <<>>)
       \o ManylinuxLoop(minor - 1, minMinor, arch)

FormatsAt(major, minor, fmts) == [i \in 1..Len(fmts) |-> Tag("macosx", major, minor, fmts[i])]
RECURSIVE MacMinorLoop(_, _, _)        \* for minor in range(hi, lo, -1): for fmt in fmts
MacMinorLoop(hi, lo, fmts) ==
  IF hi <= lo THEN <<>> ELSE FormatsAt(10, hi, fmts) \o MacMinorLoop(hi - 1, lo, fmts)
RECURSIVE MacMajorLoop(_, _, _)        \* for major in range(hi, lo, -1): for fmt in fmts
MacMajorLoop(hi, lo, fmts) ==
  IF hi <= lo THEN <<>> ELSE FormatsAt(hi, 0, fmts) \o MacMajorLoop(hi - 1, lo, fmts)

AlgoTags(c) ==
  CASE c.os = "manylinux" ->
         (IF MinManylinuxMinor(c.arch) # -1 THEN ManylinuxLoop(c.minor, MinManylinuxMinor(c.arch), c.arch) ELSE <<>>)
         \o <<Tag("linux", 0, 0, c.arch)>>
    [] c.os = "musllinux" ->
         <<Tag("linux", 0, 0, c.arch)>> \o [k \in 1..c.minor |-> Tag("musllinux", c.major, k, c.arch)]
    [] c.os = "macos" /\ c.arch = "x86_64" ->
         (IF c.major = 10 THEN MacMinorLoop(c.minor, 3, MacBinaryFormats(c.arch))
          ELSE MacMajorLoop(c.major, 10, MacBinaryFormats(c.arch)) \o MacMinorLoop(16, 3, MacBinaryFormats(c.arch)))
    [] c.os = "macos" /\ c.arch = "aarch64" ->
         \* the arm64 branch does not look at os.major == 10 (named deviation: MacArm64IgnoresTenSeries)
         MacMajorLoop(c.major, 10, MacBinaryFormats(c.arch)) \o MacMinorLoop(16, 3, <<"universal2">>)
    [] c.os = "windows" ->
         <<Tag(CASE c.arch = "x86" -> "win32" [] c.arch = "x86_64" -> "win_amd64" [] c.arch = "aarch64" -> "win_arm64", 0, 0, "")>>

Claimed(seq) == SelectSeq(seq, LAMBDA t : t.x \notin FatFormats)
MacArm64IgnoresTenSeries(c) == c.os = "macos" /\ c.major = 10 /\ c.arch = "aarch64"

\* EnvSpec._evaluate_platform: index in [*compatible_tags, "any"]; 0 = None (not accepted)
IndexOf(seq, t) ==       \* list.index: first occurrence, 0 when absent
  LET hits == { i \in 1..Len(seq) : seq[i] = t }
  IN IF hits = {} THEN 0 ELSE CHOOSE i \in hits : \A j \in hits : i <= j
ScoreIn(all, t) == LET i == IndexOf(all, t) IN IF i = 0 THEN 0 ELSE Len(all) - (i - 1)
Score(c, t) == ScoreIn(AlgoTags(c) \o <<AnyTag>>, t)
Scores(c) == LET all == AlgoTags(c) \o <<AnyTag>> IN [i \in 1..(Len(all) - 1) |-> ScoreIn(all, all[i])]

\* platform part of EnvSpec.compare (both platforms present): "incompatible" | "le" | "higher"
HasVersion(c) == c.os \in {"manylinux", "musllinux", "macos"}
PlatCompare(p, q) ==
  IF p.arch # q.arch THEN "incompatible"
  ELSE IF p.os # q.os THEN "incompatible"
  ELSE IF HasVersion(p) THEN (IF p.major < q.major \/ (p.major = q.major /\ p.minor <= q.minor) THEN "le" ELSE "higher")
  ELSE "le"

\* Platform.__str__ / Platform.parse on underscore-separated tokens (numbers stay numbers)
ArchTokens(arch) == IF arch = "x86_64" THEN <<"x86", "64">> ELSE <<arch>>
Str(c) ==
  IF c.os = "windows" /\ c.arch = "x86_64" THEN <<"windows", "amd64">>
  ELSE LET osTok == IF c.os = "windows" THEN <<"windows">> ELSE <<c.os, c.major, c.minor>>
       IN IF c.os \in {"macos", "windows"} /\ c.arch = "aarch64" THEN osTok \o <<"arm64">>
          ELSE osTok \o ArchTokens(c.arch)
ArchParse(toks) ==       \* Arch.parse on the re-joined tokens
  IF toks = <<"x86", "64">> THEN "x86_64"
  ELSE IF toks \in {<<"i386">>, <<"i686">>} THEN "x86"
  ELSE IF toks = <<"amd64">> THEN "x86_64"
  ELSE IF toks = <<"arm64">> THEN "aarch64"
  ELSE IF Len(toks) = 1 THEN toks[1] ELSE "?"
Parse(toks) ==
  IF toks[1] = "windows" THEN Cfg("windows", 0, 0, ArchParse(Tail(toks)))          \* startswith("windows_")
  ELSE IF toks[1] \in {"manylinux", "macos", "musllinux"} /\ Len(toks) >= 4         \* _platform_major_minor_re
    THEN Cfg(toks[1], toks[2], toks[3], ArchParse(SubSeq(toks, 4, Len(toks))))
  ELSE Cfg("?", 0, 0, "?")

\* the aliases of Platform.parse (tested by equality before everything else) and the full name resolution
Aliases == { <<"linux">>, <<"windows">>, <<"macos">>, <<"alpine">>, <<"macos", "arm64">>, <<"macos", "x86", "64">> }
AliasTarget(t) ==
  CASE t = <<"linux">> -> Cfg("manylinux", 2, 17, "x86_64")
    [] t = <<"windows">> -> Cfg("windows", 0, 0, "x86_64")
    [] t = <<"alpine">> -> Cfg("musllinux", 1, 2, "x86_64")
    [] t = <<"macos", "x86", "64">> -> Cfg("macos", 14, 0, "x86_64")
    [] OTHER -> Cfg("macos", 14, 0, "aarch64")                       \* "macos", "macos_arm64"
ParseName(t) == IF Len(t) <= 3 /\ t \in Aliases THEN AliasTarget(t) ELSE Parse(t)

\* Platform.markers(): the PEP 508 environment of a target platform (beyond the listed properties;
\* transcription of the os_name / sys_platform / platform_machine / platform_system properties)
Markers(c) ==
  [os_name          |-> IF c.os = "windows" THEN "nt" ELSE "posix",
   sys_platform     |-> IF c.os = "windows" THEN "win32" ELSE IF c.os = "macos" THEN "darwin" ELSE "linux",
   platform_machine |-> IF c.os \in {"windows", "macos"} /\ c.arch = "aarch64" THEN "arm64"
                        ELSE IF c.os = "windows" /\ c.arch = "x86_64" THEN "AMD64" ELSE c.arch,
   platform_system  |-> IF c.os = "macos" THEN "Darwin" ELSE IF c.os = "windows" THEN "Windows" ELSE "Linux"]
\* the environment is coherent with the tag family the platform accepts
MarkersCoherent(c) ==
  LET m == Markers(c)  t == AlgoTags(c)[1] IN
  /\ (m.os_name = "nt") = (t.f \in {"win32", "win_amd64", "win_arm64"})
  /\ (m.sys_platform = "darwin") = (t.f = "macosx")
  /\ (m.sys_platform = "linux") = (t.f \in {"manylinux", "linux", "musllinux"})
  /\ (m.platform_system = "Windows") = (m.os_name = "nt")

SeqSet(s) == { s[i] : i \in 1..Len(s) }
=============================================================================
