---------------------------- MODULE PlatformTags ----------------------------
(***************************************************************************)
(* State machines over PlatformOps (the operators live there so that       *)
(* WheelCompat can reuse them):                                            *)
(***************************************************************************)
EXTENDS PlatformOps

\* ----------------------------------------------------------- STATE MACHINE
\* Grid: one configuration per behaviour; the step generates its tag list (algorithm layer),
\*   the standard's list (meaning layer) and the score of every generated tag.
\* Pairs: every ordered pair of configurations; the step evaluates compare() and tag nesting.
VARIABLES p, q, phase, tags, want, obs
pvars == <<p, q, phase, tags, want, obs>>
NoObs == [cmp |-> "", sub |-> FALSE, sup |-> FALSE, scores |-> <<>>]

GridInit == p \in Configs /\ q = p /\ phase = "cfg" /\ tags = <<>> /\ want = <<>> /\ obs = NoObs
GridNext == /\ phase = "cfg" /\ phase' = "tags"
            /\ tags' = AlgoTags(p) /\ want' = DeclTags(p)
            /\ obs' = [NoObs EXCEPT !.scores = Scores(p)]
            /\ UNCHANGED <<p, q>>
GridSpec == GridInit /\ [][GridNext]_pvars

\* C09: exactly the standard's tags, in the standard's order where order is claimed
TagsExact == phase = "tags" /\ ~MacArm64IgnoresTenSeries(p) =>
               /\ SeqSet(Claimed(tags)) = SeqSet(want)
               /\ (Ordered(p) => Claimed(tags) = want)
               /\ Len(tags) = Cardinality(SeqSet(tags))            \* no duplicates: the score is well defined
\* C09: the score (fourth component) orders accepted tags newest-first, "any" last, others rejected
ScoreOrder == phase = "tags" =>
               /\ \A i, j \in 1..Len(tags) : i < j => obs.scores[i] > obs.scores[j]
               /\ \A i \in 1..Len(tags) : obs.scores[i] > Score(p, AnyTag)
               /\ Score(p, AnyTag) = 1
               /\ Score(p, Tag("linux", 0, 0, "nonesuch")) = 0
\* beyond the listed properties: Platform.markers() is coherent with the accepted tag family
EnvironmentCoherent == MarkersCoherent(p)
\* C18: platform names round-trip
NamesRoundTrip == Parse(Str(p)) = p

\* Names: every documented platform name (aliases, every choices() pattern instantiated over the grid, the
\*   alternative architecture spellings) --Resolve--> the platform it denotes.  `tags` holds the name's tokens.
ArchSpellings(os) == IF os = "windows" THEN { <<"amd64">>, <<"x86">>, <<"arm64">>, <<"i686">>, <<"i386">>, <<"x86", "64">>, <<"aarch64">> }
                     ELSE { <<"amd64">>, <<"arm64">>, <<"x86", "64">>, <<"aarch64">>, <<"i686">> }
DocNames == Aliases \cup { Str(c) : c \in Configs }
            \cup { <<c.os, c.major, c.minor>> \o a : c \in { d \in Configs : d.os # "windows" /\ d.arch = "x86_64" }, a \in ArchSpellings("x") }
            \cup { <<"windows">> \o a : a \in ArchSpellings("windows") }
Unresolved == Cfg("?", 0, 0, "?")
NamesInit == tags \in DocNames /\ phase = "name" /\ p = Unresolved /\ q = p /\ want = <<>> /\ obs = NoObs
NamesNext == /\ phase = "name" /\ phase' = "resolved"
             /\ p' = ParseName(tags) /\ q' = p'
             /\ UNCHANGED <<tags, want, obs>>
NamesSpec == NamesInit /\ [][NamesNext]_pvars
\* C18: every documented name resolves to a platform; aliases to platforms of the documented families whose own
\*   name resolves to the same platform; `macos` and `macos_arm64` are the same target
AllNamesResolve == phase = "resolved" => p.os # "?" /\ p.arch # "?"
AliasesResolve == phase = "resolved" /\ Len(tags) <= 3 /\ tags \in Aliases =>
                    /\ p.os \in {"manylinux", "musllinux", "macos", "windows"}
                    /\ ParseName(Str(p)) = p
                    /\ ParseName(<<"macos">>) = ParseName(<<"macos", "arm64">>)
ResolvedRoundTrip == phase = "resolved" => ParseName(Str(p)) = p

PairsInit == p \in Configs /\ q \in Configs /\ phase = "pair" /\ tags = <<>> /\ want = <<>> /\ obs = NoObs
PairsNext == /\ phase = "pair" /\ phase' = "cmp"
             /\ obs' = [NoObs EXCEPT !.cmp = PlatCompare(p, q),
                                     !.sub = SeqSet(AlgoTags(p)) \subseteq SeqSet(AlgoTags(q)),
                                     !.sup = SeqSet(AlgoTags(q)) \subseteq SeqSet(AlgoTags(p))]
             /\ UNCHANGED <<p, q, tags, want>>
PairsSpec == PairsInit /\ [][PairsNext]_pvars
Newer(x, y) == x.os = y.os /\ x.arch = y.arch /\ (x.major < y.major \/ (x.major = y.major /\ x.minor <= y.minor))
\* C16: a newer release of the same OS and architecture accepts every tag the older accepts
Monotone == phase = "cmp" /\ Newer(p, q) => obs.sub
\* C16: compare() on platforms is consistent with tag-set nesting
CompareConsistent == phase = "cmp" =>
  /\ PlatCompare(p, p) = "le"
  /\ (obs.cmp = "incompatible" <=> PlatCompare(q, p) = "incompatible")
  /\ ~(obs.cmp = "higher" /\ PlatCompare(q, p) = "higher")
  /\ (obs.cmp = "le" => obs.sub)
  /\ (obs.cmp = "higher" => obs.sup)
=============================================================================
