SPECIFICATION GridSpec
CONSTANTS MaxGlibcMinor = 50
 MaxMuslMinor = 5
 MaxMacMajor = 30
INVARIANT TagsExact
INVARIANT ScoreOrder
INVARIANT NamesRoundTrip
CHECK_DEADLOCK FALSE
