-------------------------- MODULE SpecSessionTrace --------------------------
(***************************************************************************)
(* Trace validation (binding B3, code -> spec) for version-specifier       *)
(* sessions recorded from the real library (harness/drive_spec.py).        *)
(*                                                                         *)
(* One JSON document holds many sessions; each session is a sequence of    *)
(* events, one per public call, logged at its return: operation, operand   *)
(* registers (1-based indices of earlier events) and the projection of the *)
(* result - its structural shape with bounds as ranks among the session's  *)
(* distinct bound versions, is_empty/is_any, ==/hash relations to earlier  *)
(* registers, membership of the session's candidate versions through `in`  *)
(* and contains(), str/re-parse outcome.                                   *)
(*                                                                         *)
(* The trace specification is TOTAL: an event whose logged result fails a  *)
(* clause is reported by PrintT(<<"REJECT", sid, l, {<<property, clause>>}>>)*)
(* and the session continues (operand denotations are always recomputed    *)
(* from the operands' logged shapes, so one rejection does not cascade).   *)
(* The candidate table `tbl` is a true ghost: it is computed from the      *)
(* leaves' reference tables (packaging) by Boolean algebra only (C04).     *)
(***************************************************************************)
EXTENDS IntervalOps, Json, IOUtils, TLCExt

Doc      == JsonDeserialize(IOEnv.TRACE_FILE)
Sessions == Doc.sessions
NCand(s) == Sessions[s].ncand

VARIABLES sid, l, regs
tvars == <<sid, l, regs>>

Evs == Sessions[sid].events

BoolAnd(t, u) == [i \in DOMAIN t |-> t[i] /\ u[i]]
BoolOr(t, u)  == [i \in DOMAIN t |-> t[i] \/ u[i]]
BoolNot(t)    == [i \in DOMAIN t |-> ~t[i]]
AllFalse(t)   == \A i \in DOMAIN t : ~t[i]
AllTrue(t)    == \A i \in DOMAIN t : t[i]
SeqToSet(q)   == { q[i] : i \in DOMAIN q }

DenOf(i) == Den(regs[i].shape)

\* expected denotation / candidate table of the event's result, from the operands
ExpDen(ev) ==
  CASE ev.op = "and" -> DenOf(ev.a) \cap DenOf(ev.b)
    [] ev.op = "or"  -> DenOf(ev.a) \cup DenOf(ev.b)
    [] ev.op = "not" -> Probes \ DenOf(ev.a)
    [] ev.op = "reparse" -> DenOf(ev.a)
    [] OTHER -> Den(ev.shape)                      \* parse: a leaf
ExpTbl(ev) ==
  CASE ev.op = "and" -> BoolAnd(regs[ev.a].tbl, regs[ev.b].tbl)
    [] ev.op = "or"  -> BoolOr(regs[ev.a].tbl, regs[ev.b].tbl)
    [] ev.op = "not" -> BoolNot(regs[ev.a].tbl)
    [] ev.op = "reparse" -> regs[ev.a].tbl
    [] OTHER -> ev.leaf_ref                        \* parse: packaging's verdict per candidate

\* i == j as logged when the later of the two registers was created
Related(i, j) == IF i < j THEN i \in SeqToSet(Evs[j].eq) ELSE j \in SeqToSet(Evs[i].eq)

OperandsOk(ev) == (ev.a = 0 \/ regs[ev.a].ok) /\ (ev.b = 0 \/ regs[ev.b].ok)

\* ---- clauses, each attributed to exactly one property (DESIGN appendix A)
Failing(ev) ==
  IF ev.exc # "" THEN
     (CASE ev.op \in {"and", "or", "not"} -> {<<"C01", "raises">>}
        [] ev.op = "reparse" -> {<<"C06", "raises">>}
        [] ev.op = "parse" -> {<<"C17", "raises">>}
        [] OTHER -> {<<"C14", "raises">>})
  ELSE
  LET d   == Den(ev.shape)
      ed  == ExpDen(ev)
      et  == ExpTbl(ev)
      eqs == SeqToSet(ev.eq)
      eqr == SeqToSet(ev.eq_rev)
      hs  == SeqToSet(ev.hash_eq)
      prev == { j \in 1..(l - 1) : Evs[j].op # "law" /\ Evs[j].exc = "" }     \* registers that hold a value
      \* the expected candidate table of a result is computed from the tables of its operands; once an operand's object
      \* has left its expected denotation (reported at that event), tables derived from it say nothing about later objects
      opsok == OperandsOk(ev)
  IN
  (IF ev.op \in {"and", "or", "not"} /\ d # ed THEN {<<"C01", "den">>} ELSE {}) \cup
  (IF ~Canonical(ev.shape) THEN {<<"C05", "canonical">>} ELSE {}) \cup
  (IF ev.is_empty # (d = {}) THEN {<<"C05", "is_empty">>} ELSE {}) \cup
  (IF ev.is_any # (d = Probes) THEN {<<"C05", "is_any">>} ELSE {}) \cup
  (IF \E j \in prev : (j \in eqs) # (DenOf(j) = d) THEN {<<"C05", "eq_exact">>} ELSE {}) \cup
  \* the same three observers against the EXACT candidate table (packaging's verdict on the leaves, combined by
  \* Boolean algebra): sound in this direction only, the candidates being a finite sample of the final releases
  (IF opsok /\ ev.is_empty /\ ~AllFalse(et) THEN {<<"C05", "is_empty_but_admits">>} ELSE {}) \cup
  (IF opsok /\ ev.is_any /\ ~AllTrue(et) THEN {<<"C05", "is_any_but_rejects">>} ELSE {}) \cup
  (IF opsok /\ d = ed /\ \E j \in eqs : j \in prev /\ regs[j].ok /\ regs[j].tbl # et THEN {<<"C05", "eq_but_different_versions">>} ELSE {}) \cup
  (IF eqs # eqr THEN {<<"C13", "eq_symmetric">>} ELSE {}) \cup
  (IF ~ev.eq_self THEN {<<"C13", "eq_reflexive">>} ELSE {}) \cup
  (IF ~(eqs \subseteq hs) THEN {<<"C13", "eq_implies_hash">>} ELSE {}) \cup
  (IF \E i \in eqs, j \in prev : j # i /\ Related(i, j) /\ j \notin eqs
      THEN {<<"C13", "eq_transitive">>} ELSE {}) \cup
  (IF opsok /\ ev.op # "reparse" /\ ev.cand # et THEN {<<"C04", "in_table">>} ELSE {}) \cup
  (IF opsok /\ ev.op # "reparse" /\ ev.cand_contains # et THEN {<<"C04", "contains_table">>} ELSE {}) \cup
  (IF opsok /\ ev.op = "reparse" /\ ev.cand # et THEN {<<"C06", "roundtrip_membership">>} ELSE {}) \cup
  (IF ev.op = "reparse" /\ (d # ed \/ ~ev.eq_orig) THEN {<<"C06", "roundtrip">>} ELSE {}) \cup
  (IF ev.op = "law" /\ ~(ev.law_eq /\ ev.law_eq_rev) THEN {<<"C14", ev.law>>} ELSE {}) \cup
  (IF ev.op = "law" /\ ~ev.law_hash THEN {<<"C13", "law_hash">>} ELSE {})

\* a law event only compares two earlier registers; the specification side of the law:
\* both registers must denote the same set by set algebra (else the script itself is wrong)
LawScriptSound(ev) == ev.op = "law" => DenOf(ev.a) = DenOf(ev.b)

TraceInit == /\ sid \in 1..Len(Sessions) /\ l = 1 /\ regs = <<>>
TraceNext ==
  /\ l <= Len(Evs)
  /\ LET ev == Evs[l]
         bad == IF ev.op = "law" /\ ev.exc = ""
                  THEN (IF ~(ev.law_eq /\ ev.law_eq_rev) THEN {<<"C14", ev.law>>} ELSE {}) \cup
                       (IF ~ev.law_hash THEN {<<"C13", "law_hash">>} ELSE {}) \cup
                       (IF ~LawScriptSound(ev) THEN {<<"C01", "law_script_den">>} ELSE {})
                  ELSE Failing(ev)
     IN /\ (bad # {} => PrintT(<<"REJECT", Sessions[sid].sid, l, bad>>))
        /\ regs' = Append(regs, IF ev.exc # "" \/ ev.op = "law"
                                  THEN [shape |-> E, tbl |-> <<>>, ok |-> FALSE]
                                  ELSE [shape |-> ev.shape, tbl |-> ExpTbl(ev),
                                        ok |-> OperandsOk(ev) /\ Den(ev.shape) = ExpDen(ev)])
        /\ l' = l + 1
        /\ UNCHANGED sid
TraceSpec == TraceInit /\ [][TraceNext]_tvars

\* every event of every session was consumed: one state per event plus one initial state per
\* session (the harness writes the expected total into the document; a recursive sum over
\* thousands of sessions overflows TLC's evaluation stack)
AllConsumed == TLCGet("stats").distinct = Doc.expected_states
=============================================================================
