----------------------------- MODULE WheelCompat -----------------------------
(***************************************************************************)
(* State machines over WheelOps:                                           *)
(*  Decide  one requires_python of the family and one implementation/gil   *)
(*          setting per behaviour; the step evaluates EVERY tag pair with  *)
(*          the transcribed _evaluate_python (verdicts) and with the       *)
(*          declarative rule (wants).  Dumped states are the B1 vectors.   *)
(*  Widen   pairs rp, rp2 with Den(rp) \subseteq Den(rp2).                 *)
(***************************************************************************)
EXTENDS WheelOps

VARIABLES rp, rp2, set, phase, verdicts, wants
wvars == <<rp, rp2, set, phase, verdicts, wants>>
ASSUME PrintT(<<"TAGPAIRS", TagPairs>>)
ASSUME PrintT(<<"VGRID", VGrid>>)

DecideInit == rp \in RPFamily /\ rp2 = E /\ set \in Settings /\ phase = "spec" /\ verdicts = <<>> /\ wants = <<>>
DecideNext == /\ phase = "spec" /\ phase' = "decided"
              /\ verdicts' = Verdicts(rp, set) /\ wants' = Wants(rp, set)
              /\ UNCHANGED <<rp, rp2, set>>
DecideSpec == DecideInit /\ [][DecideNext]_wvars

\* C08: compatible exactly when some admitted interpreter can load the pair; score as stated
BadPairs == { i \in 1..NP : wants[i][1] # 2 /\ verdicts[i] # wants[i] }
DecisionExact == phase = "decided" => BadPairs = {}
\* same, but reports the offending tag pairs (diagnosis of design-level findings)
DecisionDiag == phase = "decided" /\ BadPairs # {} =>
                  PrintT(<<"BADPAIRS", rp, set, { <<TagPairs[i], verdicts[i], wants[i]>> : i \in BadPairs }>>) /\ FALSE

\* Widen: here `wants` holds the verdicts of the wider rp2
WidenInit == rp \in RPFamily /\ rp2 \in RPFamily /\ Den(rp) \subseteq Den(rp2)
             /\ set \in Settings /\ phase = "spec" /\ verdicts = <<>> /\ wants = <<>>
WidenNext == /\ phase = "spec" /\ phase' = "widened"
             /\ verdicts' = Verdicts(rp, set) /\ wants' = Verdicts(rp2, set)
             /\ UNCHANGED <<rp, rp2, set>>
WidenSpec == WidenInit /\ [][WidenNext]_wvars
\* C16: widening requires_python never loses a wheel
WideningKeepsWheels == phase = "widened" => \A i \in 1..NP : verdicts[i][1] = 1 => wants[i][1] = 1
=============================================================================
