---------------------------- MODULE WheelCompatMC ----------------------------
(* Model constants for WheelCompat (tuples cannot be written in a .cfg file). *)
EXTENDS WheelCompat
Inner2      == { <<3, 9, 5>>, <<3, 10, 2>> }
BoundsQuick == { <<3, 9, 0>>, <<3, 9, 5>>, <<3, 10, 0>> }          \* inside and at series boundaries
BoundsWide  == { <<2, 7, 0>>, <<3, 0, 0>>, <<3, 9, 5>>, <<3, 11, 0>>, <<4, 0, 0>> }
BoundsPair  == { <<3, 9, 0>>, <<3, 10, 2>> }
MinorsQuick == {0, 1, 2, 8, 9, 10, 11, 13, 20}
MinorsAll   == 0..20
=============================================================================
