------------------------------ MODULE WheelName ------------------------------
(***************************************************************************)
(* Wheel file names (PEP 427): dep_logic/tags/tags.py parse_wheel_tags.    *)
(*                                                                         *)
(* A file name is modelled as the token sequence its characters form:      *)
(* words (runs without "-" and "."), "DASH" and "DOT", plus the extension. *)
(* MEANING: the structured name [dist, version, build?, py, abi, plat] -    *)
(*   each of py/abi/plat a non-empty sequence of tags (compressed set).    *)
(* ALGORITHM: count the dashes, split on them, take the LAST three fields, *)
(*   split each on dots.                                                   *)
(* Mutations model the near-miss names: wrong extension, right extension   *)
(* in the wrong case, a field dropped, an extra field.                     *)
(***************************************************************************)
EXTENDS Naturals, Sequences, FiniteSets, TLC

CONSTANTS MaxTags      \* max tags per compressed set

Words(n) == [1..n -> {"w"}]
\* a dotted field: k words joined by DOT
Dotted(k) == IF k = 1 THEN <<"w">> ELSE <<"w">> \o [i \in 1..(2 * (k - 1)) |-> IF i % 2 = 1 THEN "DOT" ELSE "w"]

Names == [ distParts : 1..2,          \* dots inside the distribution name (foo.bar)
           verParts  : 1..3,          \* 1.0.post1
           build     : BOOLEAN,
           py : 1..MaxTags, abi : 1..MaxTags, plat : 1..MaxTags,
           mut : {"none", "ext", "extcase", "drop", "extra", "extra2"} ]

Fields(nm) ==
  LET base == <<Dotted(nm.distParts), Dotted(nm.verParts)>>
             \o (IF nm.build THEN <<<<"w">>>> ELSE <<>>)
             \o <<Dotted(nm.py), Dotted(nm.abi), Dotted(nm.plat)>>
  IN CASE nm.mut = "drop"   -> SubSeq(base, 2, Len(base))
       [] nm.mut = "extra"  -> <<<<"w">>>> \o base
       [] nm.mut = "extra2" -> <<<<"w">>, <<"w">>>> \o base
       [] OTHER -> base
RECURSIVE JoinDash(_)
JoinDash(fs) == IF Len(fs) = 1 THEN fs[1] ELSE fs[1] \o <<"DASH">> \o JoinDash(Tail(fs))
Tokens(nm) == JoinDash(Fields(nm))
\* "WHL": the right extension in the wrong case - the comparison is on the text as given (packaging: endswith(".whl"))
Ext(nm) == IF nm.mut = "ext" THEN "zip" ELSE IF nm.mut = "extcase" THEN "WHL" ELSE "whl"

\* ----------------------------------------------------------------- MEANING
\* PEP 427: {dist}-{version}(-{build})?-{py}-{abi}-{plat}.whl  -> 5 or 6 fields
WellFormed(nm) == Ext(nm) = "whl" /\ Len(Fields(nm)) \in {5, 6}
WantTags(nm) == <<nm.py, nm.abi, nm.plat>>         \* number of tags in each of the three sets

\* --------------------------------------------------------------- ALGORITHM
CountDash(toks) == Cardinality({ i \in 1..Len(toks) : toks[i] = "DASH" })
RECURSIVE SplitOn(_, _)
SplitOn(toks, sep) ==          \* str.split(sep)
  IF \A i \in 1..Len(toks) : toks[i] # sep THEN <<toks>>
  ELSE LET k == CHOOSE i \in 1..Len(toks) : toks[i] = sep /\ \A j \in 1..(i-1) : toks[j] # sep
       IN <<SubSeq(toks, 1, k - 1)>> \o SplitOn(SubSeq(toks, k + 1, Len(toks)), sep)
ParseWheelTags(toks, ext) ==
  IF ext # "whl" THEN [ok |-> FALSE, tags |-> <<0, 0, 0>>]
  ELSE IF CountDash(toks) \notin {4, 5} THEN [ok |-> FALSE, tags |-> <<0, 0, 0>>]
  ELSE LET parts == SplitOn(toks, "DASH")
           n == Len(parts)
       IN [ok |-> TRUE, tags |-> <<Len(SplitOn(parts[n-2], "DOT")), Len(SplitOn(parts[n-1], "DOT")), Len(SplitOn(parts[n], "DOT"))>>]

VARIABLES nm, phase, out
nvars == <<nm, phase, out>>
NameInit == nm \in Names /\ phase = "name" /\ out = [ok |-> FALSE, tags |-> <<0, 0, 0>>]
NameNext == phase = "name" /\ phase' = "parsed" /\ out' = ParseWheelTags(Tokens(nm), Ext(nm)) /\ UNCHANGED nm
NameSpec == NameInit /\ [][NameNext]_nvars

\* C18: the last three fields are recovered exactly; malformed names are rejected
ParseExact == phase = "parsed" =>
   /\ out.ok = WellFormed(nm)
   /\ (out.ok => out.tags = WantTags(nm))
=============================================================================
