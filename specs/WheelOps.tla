------------------------------- MODULE WheelOps -------------------------------
(***************************************************************************)
(* Wheel python/ABI compatibility and EnvSpec.compare                      *)
(* (dep_logic/tags/tags.py: EnvSpec._evaluate_python, compatibility,       *)
(* compare), on top of the interval algebra (IntervalOps) and the platform *)
(* operators (PlatformOps).                                                *)
(*                                                                         *)
(* Python versions are the points of IntervalOps: VGrid lists the series   *)
(* boundaries X.Y.0 for majors 2-3, minors 0-21, 4.0.0 and a few points    *)
(* inside a series (X.Y.5), so `requires_python` values are ordinary       *)
(* interval-algebra values and "(wheel_range & requires_python).is_empty()"*)
(* is evaluated with the transcribed And of IntervalOps.                   *)
(*                                                                         *)
(* MEANING  Loadable(tag pair, setting): which interpreters can load the   *)
(*   pair (PEP 425/3149/703 as the property states them); compatible iff   *)
(*   that set meets Den(requires_python) on the probes.                    *)
(* ALGORITHM  EvalPython: the string slicing / prefix / suffix logic of    *)
(*   _evaluate_python on digit sequences, the three parse_version_specifier*)
(*   calls, the & and is_empty().                                          *)
(***************************************************************************)
EXTENDS IntervalOps, PlatformOps

CONSTANTS Minors,          \* minors of the python-tag universe (subset of 0..20)
          InnerPoints,     \* versions <<X,Y,Z>> with Z > 0 added to the grid
          BoundSel         \* versions used as bounds of the requires_python family

LexLess(u, v) == \/ u[1] < v[1] \/ (u[1] = v[1] /\ u[2] < v[2]) \/ (u[1] = v[1] /\ u[2] = v[2] /\ u[3] < v[3])
VersionsSet == { <<X, Y, 0>> : X \in 2..3, Y \in 0..21 } \cup InnerPoints \cup { <<4, 0, 0>> }
VGrid == SetToSortSeq(VersionsSet, LexLess)
ASSUME N = Len(VGrid)
ASSUME BoundSel \subseteq VersionsSet
PointOf(v) == CHOOSE i \in 1..N : VGrid[i] = v

\* ---- requires_python family: every union of the cells that BoundSel cuts the probe line into
BoundProbes == { 2 * PointOf(v) - 1 : v \in BoundSel }
CellOf(p) == IF p \in BoundProbes THEN {p}
             ELSE { x \in Probes : x \notin BoundProbes /\ \A b \in BoundProbes : (b < x) = (b < p) }
Cells == { CellOf(p) : p \in Probes }
RPFamily == { CanonOf(UNION S) : S \in SUBSET Cells }

\* ---- settings: implementation ("" none, "cp" CPython, "pp" PyPy, "pt" Pyston) and free-threading flag (-1 unspecified, 0, 1)
Settings == { [impl |-> "", ft |-> -1], [impl |-> "cp", ft |-> 0], [impl |-> "cp", ft |-> 1], [impl |-> "pp", ft |-> 0], [impl |-> "pt", ft |-> 0] }

\* ---- tag universe.  python tag [impl, major, minor] (minor -1: absent);
\*      abi tag [kind, impl, major, minor, flag]: kind none | abi3 | concrete; flag "" | "m" | "t"
PyTags == { [impl |-> "py", major |-> X, minor |-> -1] : X \in 2..3 } \cup
          { [impl |-> i, major |-> X, minor |-> Y] : i \in {"py", "cp", "pp"}, X \in 2..3, Y \in Minors } \cup
          { [impl |-> "pt", major |-> 3, minor |-> Y] : Y \in Minors \cap {8, 9} }        \* Pyston
NoAbi == [kind |-> "none", impl |-> "", major |-> 0, minor |-> 0, flag |-> ""]
Abi3  == [kind |-> "abi3", impl |-> "", major |-> 0, minor |-> 0, flag |-> ""]
Concrete(i, X, Y, f) == [kind |-> "concrete", impl |-> i, major |-> X, minor |-> Y, flag |-> f]
AbisFor(t) ==
  {NoAbi, Abi3} \cup
  (IF t.minor = -1 THEN { Concrete("cp", t.major, 8, "") }
   ELSE LET own == IF t.impl = "py" THEN "cp" ELSE t.impl IN
        { Concrete(own, t.major, t.minor, f) : f \in (IF own = "cp" THEN {"", "m", "t"} ELSE {""}) } \cup   \* own ABI (for py tags: a cp ABI)
        { Concrete(own, t.major, t.minor + 1, "") } \cup                          \* another minor
        { Concrete(IF own = "cp" THEN "pp" ELSE "cp", t.major, t.minor, "") } \cup \* another implementation
        (IF t.minor \in 1..2 THEN { Concrete(own, t.major, 10 * t.minor, f) : f \in (IF own = "cp" THEN {"", "t"} ELSE {""}) } ELSE {}))  \* cp31 vs cp310 / cp310t: digit-prefix
TagPairs == SetToSeq({ <<t, a>> : t \in PyTags, a \in UNION { AbisFor(u) : u \in PyTags } } \cap
                     { pr \in PyTags \X UNION { AbisFor(u) : u \in PyTags } : pr[2] \in AbisFor(pr[1]) })

\* ----------------------------------------------------------------- MEANING
SeriesRange(X, Y) == Rng(PointOf(<<X, Y, 0>>), PointOf(<<X, Y + 1, 0>>), TRUE, FALSE)       \* ==X.Y.*
MajorFrom(X, Y)   == Rng(PointOf(<<X, Y, 0>>), PointOf(<<X + 1, 0, 0>>), TRUE, FALSE)       \* >=X.Y, same major
FromVersion(X, Y) == Rng(PointOf(<<X, Y, 0>>), None, TRUE, FALSE)                           \* >=X.Y

ImplAccepted(s, t) == s.impl = "" \/ t.impl \in {s.impl, "py"}
AbiMatches(s, t, a) ==        \* a concrete ABI must be the python tag's own, and agree with the free-threading flag
  /\ a.impl = t.impl /\ a.major = t.major /\ a.minor = t.minor
  /\ (s.ft # -1 => ((a.flag = "t") = (s.ft = 1)))
\* abi3 is CPython's stable ABI: only a cpXY python tag carries it, and a free-threaded interpreter cannot load it
\* (no interpreter lists pyX-abi3 / ppXY-abi3 among its supported tags: "some admitted Python can load it" is false)
Abi3Loadable(s, t) == t.impl = "cp" /\ s.ft # 1
DontCare(s, t, a) == FALSE
LoadRange(t, a) ==
  IF a.kind = "abi3" THEN FromVersion(t.major, IF t.minor = -1 THEN 0 ELSE t.minor)
  ELSE IF t.minor = -1 THEN MajorFrom(t.major, 0)                     \* pyX: any X.* interpreter
  ELSE IF t.impl = "py" THEN MajorFrom(t.major, t.minor)              \* pyXY: major X, at or above X.Y
  ELSE SeriesRange(t.major, t.minor)                                  \* cpXY / ppXY: an X.Y interpreter
DeclCompatible(rp, s, t, a) ==
  /\ ImplAccepted(s, t)
  /\ (a.kind = "concrete" => AbiMatches(s, t, a))
  /\ (a.kind = "abi3" => Abi3Loadable(s, t))
  /\ DenR(LoadRange(t, a)) \cap Den(rp) # {}
DeclScore(t, a) == <<t.major, IF t.minor = -1 THEN 0 ELSE t.minor,
                     CASE a.kind = "concrete" -> 2 [] a.kind = "abi3" -> 1 [] OTHER -> 0>>

\* --------------------------------------------------------------- ALGORITHM
\* strings as integer sequences: implementation code, one major digit, minor digits, flag code
ImplCode(i) == CASE i = "py" -> 1 [] i = "cp" -> 2 [] i = "pp" -> 3 [] i = "pt" -> 4 [] OTHER -> 9
FlagCode(f) == CASE f = "m" -> 101 [] f = "t" -> 102 [] OTHER -> 0
Digits(n) == IF n < 10 THEN <<n>> ELSE <<n \div 10, n % 10>>
PyStr(t)  == <<ImplCode(t.impl), t.major>> \o (IF t.minor = -1 THEN <<>> ELSE Digits(t.minor))
AbiStr(a) == <<ImplCode(a.impl), a.major>> \o Digits(a.minor) \o (IF a.flag = "" THEN <<>> ELSE <<FlagCode(a.flag)>>)
StartsWith(s, pre) == Len(pre) <= Len(s) /\ SubSeq(s, 1, Len(pre)) = pre
EndsWithT(s) == Len(s) > 0 /\ s[Len(s)] = 102

\* TRUE: a pyXY tag is read as ">=X.Y within the major" (the property; fix commit), FALSE: as ==X.Y.* (historical)
PyMinorIsFloor == TRUE
\* TRUE: the ABI must continue the python tag with a non-digit (cp31 does not accept cp310), FALSE: bare startswith
AbiPrefixStopsAtDigits == TRUE

NoneV == [ok |-> FALSE, s |-> <<0, 0, 0>>]
EvalPython(rp, s, t, a) ==
  LET minorOr0 == IF t.minor = -1 THEN 0 ELSE t.minor
      allowAbi3 == t.impl = "cp" /\ (s.impl = "" \/ s.ft # 1)
  IN
  IF s.impl # "" /\ t.impl \notin {s.impl, "py"} THEN NoneV
  ELSE IF a.kind = "abi3" THEN
         (IF ~allowAbi3 THEN NoneV
          ELSE IF IsEmpty(And(R(FromVersion(t.major, minorOr0)), rp)) THEN NoneV
          ELSE [ok |-> TRUE, s |-> <<t.major, minorOr0, 1>>])
  ELSE IF a.kind = "concrete" /\ ~StartsWith(AbiStr(a), PyStr(t)) THEN NoneV
  ELSE IF a.kind = "concrete" /\ AbiPrefixStopsAtDigits /\ Len(AbiStr(a)) > Len(PyStr(t)) /\ AbiStr(a)[Len(PyStr(t)) + 1] < 100 THEN NoneV
  ELSE IF a.kind = "concrete" /\ s.impl # "" /\ (EndsWithT(AbiStr(a)) # (s.ft = 1)) THEN NoneV
  ELSE LET wheel == IF t.minor # -1
                      THEN (IF PyMinorIsFloor /\ t.impl = "py" THEN MajorFrom(t.major, t.minor) ELSE SeriesRange(t.major, t.minor))
                      ELSE MajorFrom(t.major, 0)
       IN IF IsEmpty(And(R(wheel), rp)) THEN NoneV
          ELSE [ok |-> TRUE, s |-> <<t.major, minorOr0, IF a.kind = "none" THEN 0 ELSE 2>>]

\* EnvSpec.compare; an EnvSpec is [rp, plat, impl] with plat = NoPlat / impl = "" for None
NoPlat == Cfg("", 0, 0, "")
EnvEq(x, y) == Eq(x.rp, y.rp) /\ x.plat = y.plat /\ x.impl = y.impl /\ x.ft = y.ft
Compare(x, y) ==
  IF EnvEq(x, y) THEN "le"
  ELSE IF IsEmpty(And(x.rp, y.rp)) THEN "incompatible"
  ELSE IF x.impl # "" /\ y.impl # "" /\ (x.impl # y.impl \/ x.ft # y.ft) THEN "incompatible"
  ELSE IF x.plat = NoPlat \/ y.plat = NoPlat THEN "le"
  ELSE PlatCompare(x.plat, y.plat)

NP == Len(TagPairs)
Verdicts(r, s) == [i \in 1..NP |-> LET v == EvalPython(r, s, TagPairs[i][1], TagPairs[i][2])
                                  IN <<IF v.ok THEN 1 ELSE 0, v.s[1], v.s[2], v.s[3]>>]
\* the meaning layer's answer per tag pair: <<2,..>> = outside the statement (don't care)
Wants(r, s) == [i \in 1..NP |-> LET t == TagPairs[i][1]  a == TagPairs[i][2]  sc == DeclScore(t, a) IN
                  IF DontCare(s, t, a) THEN <<2, 0, 0, 0>>
                  ELSE IF DeclCompatible(r, s, t, a) THEN <<1, sc[1], sc[2], sc[3]>> ELSE <<0, 0, 0, 0>>]
=============================================================================
