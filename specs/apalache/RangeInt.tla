------------------------------ MODULE RangeInt ------------------------------
(***************************************************************************)
(* Unbounded complement to IntervalAlgebra (which is exhaustive for N <= 4 *)
(* bounds): range x range &, | and ~ of dep_logic/specifiers/range.py for  *)
(* ARBITRARY integer bounds and an arbitrary probe, discharged by Apalache *)
(* (symbolic, SMT) as a one-state invariant (--length=0).                  *)
(*                                                                         *)
(* A bound is an integer k standing for position 2k on a line whose odd    *)
(* positions 2k+1 are the open gaps; a probe is a position pos.  None is a *)
(* flag (nlo / nhi).  The operators are the same transcription as in       *)
(* IntervalOps.tla, written without sequences so that Apalache types them. *)
(***************************************************************************)
EXTENDS Integers

VARIABLES
  \* @type: { lo: Int, hi: Int, li: Bool, ui: Bool, nlo: Bool, nhi: Bool };
  a,
  \* @type: { lo: Int, hi: Int, li: Bool, ui: Bool, nlo: Bool, nhi: Bool };
  b,
  \* @type: Int;
  pos

\* @type: ({ lo: Int, hi: Int, li: Bool, ui: Bool, nlo: Bool, nhi: Bool }, Int) => Bool;
In(r, p) == /\ (r.nlo \/ p > 2 * r.lo \/ (p = 2 * r.lo /\ r.li))
            /\ (r.nhi \/ p < 2 * r.hi \/ (p = 2 * r.hi /\ r.ui))
\* @type: ({ lo: Int, hi: Int, li: Bool, ui: Bool, nlo: Bool, nhi: Bool }) => Bool;
WellFormed(r) == (r.nlo => ~r.li) /\ (r.nhi => ~r.ui)
\* @type: ({ lo: Int, hi: Int, li: Bool, ui: Bool, nlo: Bool, nhi: Bool }) => Bool;
NonDegenerate(r) == r.nlo \/ r.nhi \/ r.lo < r.hi \/ (r.lo = r.hi /\ r.li /\ r.ui)

\* ---- transcription of range.py (see IntervalOps.tla)
\* @type: ({ lo: Int, hi: Int, li: Bool, ui: Bool, nlo: Bool, nhi: Bool }, { lo: Int, hi: Int, li: Bool, ui: Bool, nlo: Bool, nhi: Bool }) => Bool;
AllowsLower(s, o) == IF o.nlo THEN FALSE ELSE IF s.nlo THEN TRUE ELSE s.lo < o.lo \/ (s.lo = o.lo /\ s.li /\ ~o.li)
\* @type: ({ lo: Int, hi: Int, li: Bool, ui: Bool, nlo: Bool, nhi: Bool }, { lo: Int, hi: Int, li: Bool, ui: Bool, nlo: Bool, nhi: Bool }) => Bool;
AllowsHigher(s, o) == IF o.nhi THEN FALSE ELSE IF s.nhi THEN TRUE ELSE s.hi > o.hi \/ (s.hi = o.hi /\ s.ui /\ ~o.ui)
\* @type: ({ lo: Int, hi: Int, li: Bool, ui: Bool, nlo: Bool, nhi: Bool }, { lo: Int, hi: Int, li: Bool, ui: Bool, nlo: Bool, nhi: Bool }) => Bool;
IsStrictlyLower(s, o) == IF s.nhi \/ o.nlo THEN FALSE ELSE s.hi < o.lo \/ (s.hi = o.lo /\ (~s.ui \/ ~o.li))
\* @type: ({ lo: Int, hi: Int, li: Bool, ui: Bool, nlo: Bool, nhi: Bool }, { lo: Int, hi: Int, li: Bool, ui: Bool, nlo: Bool, nhi: Bool }) => Bool;
IsAdjacentTo(s, o) == IF s.nhi \/ o.nlo THEN FALSE ELSE s.hi = o.lo /\ (s.ui # o.li)
\* @type: ({ lo: Int, hi: Int, li: Bool, ui: Bool, nlo: Bool, nhi: Bool }, { lo: Int, hi: Int, li: Bool, ui: Bool, nlo: Bool, nhi: Bool }) => Bool;
IsSuperset(s, o) ==
  /\ (s.nlo \/ (~o.nlo /\ (s.lo < o.lo \/ (s.lo = o.lo /\ ~(~s.li /\ o.li)))))
  /\ (s.nhi \/ (~o.nhi /\ (s.hi > o.hi \/ (s.hi = o.hi /\ ~(~s.ui /\ o.ui)))))

\* __and__: empty flag + range
AndEmpty ==
  ~IsSuperset(a, b) /\ ~IsSuperset(b, a) /\
  ((AllowsLower(a, b) /\ IsStrictlyLower(a, b)) \/ (~AllowsLower(a, b) /\ IsStrictlyLower(b, a)))
AndRange ==
  IF IsSuperset(a, b) THEN b ELSE IF IsSuperset(b, a) THEN a
  ELSE LET mn == IF AllowsLower(a, b) THEN b ELSE a
           mx == IF AllowsHigher(a, b) THEN b ELSE a
       IN [lo |-> mn.lo, nlo |-> mn.nlo, li |-> mn.li, hi |-> mx.hi, nhi |-> mx.nhi, ui |-> mx.ui]

\* __or__: two-range union flag + single range
OrIsUnion ==
  ~IsSuperset(a, b) /\ ~IsSuperset(b, a) /\
  ((AllowsLower(a, b) /\ IsStrictlyLower(a, b) /\ ~IsAdjacentTo(a, b)) \/
   (~AllowsLower(a, b) /\ IsStrictlyLower(b, a) /\ ~IsAdjacentTo(b, a)))
OrRange ==
  IF IsSuperset(a, b) THEN a ELSE IF IsSuperset(b, a) THEN b
  ELSE LET mn == IF AllowsLower(a, b) THEN a ELSE b
           mx == IF AllowsHigher(a, b) THEN a ELSE b
       IN [lo |-> mn.lo, nlo |-> mn.nlo, li |-> mn.li, hi |-> mx.hi, nhi |-> mx.nhi, ui |-> mx.ui]

Init == /\ a \in [lo : Int, hi : Int, li : BOOLEAN, ui : BOOLEAN, nlo : BOOLEAN, nhi : BOOLEAN]
        /\ b \in [lo : Int, hi : Int, li : BOOLEAN, ui : BOOLEAN, nlo : BOOLEAN, nhi : BOOLEAN]
        /\ pos \in Int
        /\ WellFormed(a) /\ WellFormed(b) /\ NonDegenerate(a) /\ NonDegenerate(b)
Next == UNCHANGED <<a, b, pos>>

\* C01 for two ranges, any integer bounds, any probe
AndSound == IF AndEmpty THEN ~(In(a, pos) /\ In(b, pos)) ELSE (In(AndRange, pos) <=> (In(a, pos) /\ In(b, pos)))
OrSound  == IF OrIsUnion THEN TRUE ELSE (In(OrRange, pos) <=> (In(a, pos) \/ In(b, pos)))
\* C05 for two ranges: results are canonical (non-degenerate; a two-range union is separated by a gap)
AndCanon == ~AndEmpty => NonDegenerate(AndRange) /\ WellFormed(AndRange)
OrCanon  == IF OrIsUnion
              THEN LET first == IF AllowsLower(a, b) THEN a ELSE b
                       second == IF AllowsLower(a, b) THEN b ELSE a
                   IN ~first.nhi /\ ~second.nlo /\ (first.hi < second.lo \/ (first.hi = second.lo /\ ~first.ui /\ ~second.li))
              ELSE NonDegenerate(OrRange) /\ WellFormed(OrRange)
=============================================================================
