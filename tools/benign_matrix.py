#!/usr/bin/env python3
"""Run every quick check against behaviour-preserving refactorings (/tmp/seed_out/benign/R*): all must stay silent.
usage: tools/benign_matrix.py R1 R2 ...   (MATRIX_SLOT selects the scratch worktree)"""
import json, os, subprocess, sys
PIDS = [f"C{i:02d}" for i in range(1, 20)]
def sh(cmd, **kw): return subprocess.run(cmd, shell=True, capture_output=True, text=True, **kw)
wt = "/tmp/wt/benignrun" + os.environ.get("MATRIX_SLOT", "")
sh(f"git -C /repo worktree remove --force {wt}"); sh(f"git -C /repo worktree add -q --detach {wt} HEAD")
for r in sys.argv[1:]:
    d = os.environ.get("BENIGN_SRC", "/tmp/seed_out/benign") + f"/{r}"
    if not os.path.exists(f"{d}/patch.diff"):
        d = f"/verif/seeded/benign-{r}"           # re-run of a stored refactoring
    sh(f"git -C {wt} checkout -- .")
    if sh(f"git -C {wt} apply {d}/patch.diff").returncode != 0:
        print(r, "does not apply at HEAD", flush=True); continue
    suite = sh("/venv/bin/python -m pytest -q -p no:cacheprovider tests 2>&1 | tail -1", cwd=wt, env=dict(os.environ, PYTHONPATH=f"{wt}/src")).stdout.strip()
    res = {}
    pids = PIDS
    if os.environ.get("BENIGN_RELEVANT"):
        import re
        sys.path.insert(0, os.path.dirname(__file__))
        from mutate import FILES
        touched = re.findall(r"^diff --git a/(\S+)", open(f"{d}/patch.diff").read(), re.M)
        pids = sorted({c for f in touched for c in FILES.get(f, PIDS)})
    for pid in pids:
        p = sh(f"./check {pid}", cwd="/verif", env=dict(os.environ, DEP_LOGIC_SRC=f"{wt}/src"))
        res[pid] = p.returncode
        if p.returncode != 0:
            lines = [l for l in p.stdout.splitlines() if l.startswith("  " + pid)][:2] + p.stderr.splitlines()[-2:]
            print(r, pid, "exit", p.returncode, lines, flush=True)
    os.makedirs(f"/verif/seeded/benign-{r}", exist_ok=True)
    if d != f"/verif/seeded/benign-{r}":
        sh(f"cp {d}/patch.diff /verif/seeded/benign-{r}/patch.diff")
    meta = json.load(open(f"{d}/meta.json")) if os.path.exists(f"{d}/meta.json") else {}
    json.dump({"kind": "behaviour-preserving refactoring (must NOT raise any alarm)", "summary": meta.get("summary", ""), "repo_head": sh("git -C /repo rev-parse --short HEAD").stdout.strip(), "suite_with_patch": suite,
               "check_exit_codes": res, "silent": all(v == 0 for v in res.values())}, open(f"/verif/seeded/benign-{r}/meta.json", "w"), indent=1)
    print(r, "suite:", suite, "silent:", all(v == 0 for v in res.values()), flush=True)
sh(f"git -C /repo worktree remove --force {wt}")
