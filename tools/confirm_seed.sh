#!/bin/sh
# usage: tools/confirm_seed.sh <Cxx> <A|B>  -- confirm a seeded change in its scratch worktree:
#  demo passes unmodified, fails with the patch, the repository suite has only the 2 baseline failures.
id="$1"; x="$2"; wt="/tmp/wt/$id"; d="/tmp/seed_out/$id/$x"
[ -d "$wt" ] || git -C /repo worktree add -q --detach "$wt" HEAD
git -C "$wt" checkout -q --detach "$(git -C /repo rev-parse HEAD)" 2>/dev/null
git -C "$wt" checkout -- . 
export PYTHONHASHSEED=0
( cd "$wt" && PYTHONPATH="$wt/src" /venv/bin/python "$d/demo.py" >/dev/null 2>&1 ); r0=$?
git -C "$wt" apply "$d/patch.diff" || { echo "$id/$x: patch does not apply"; exit 1; }
( cd "$wt" && PYTHONPATH="$wt/src" /venv/bin/python "$d/demo.py" >/dev/null 2>&1 ); r1=$?
fails=$( cd "$wt" && PYTHONPATH="$wt/src" /venv/bin/python -m pytest -q -p no:cacheprovider tests 2>&1 | tail -1 )
git -C "$wt" checkout -- .
echo "$id/$x demo_unpatched_exit=$r0 demo_patched_exit=$r1 suite='$fails'"
