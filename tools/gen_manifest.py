#!/usr/bin/env python3
"""Regenerate /verif/MANIFEST.json from the table below (single source of truth for what is claimed)."""
import json, os
V = os.path.dirname(os.path.dirname(os.path.abspath(__file__)))
props = [json.loads(l) for l in open(os.path.join(V, "properties.jsonl"))]
ids = [p["id"] for p in props]

IA = "TLA+ spec IntervalOps/IntervalAlgebra (transcribed range.py/union.py/special.py + denotational meaning layer) model-checked by TLC; "
CLAIMED = {
 "C01": dict(engine="interval", category="model_checking", design_ref="5/C01",
   technique="TLC model checking of IntervalAlgebra (Pairs, Session) + exhaustive transition replay into the real objects (B1) + TLC trace validation of recorded sessions (B3)",
   text=IA + "every transition of the Pairs state graph (all ordered pairs of interval sets over N abstract bounds x and/or/not) is replayed on real specifier objects under 5-6 version embeddings and compared with the specification's result; random sessions over arbitrary PEP 440 version shapes are recorded from the real library and validated by TLC against SpecSessionTrace (clause den = set operation of the operands' denotations).",
   note="Bounded: N=3 (quick) / N=4 (thorough) abstract bounds, exhaustive within N. Trusted: TLC, packaging.Version ordering, the harness projection (object -> shape). Order-type abstraction argued in DESIGN section 3."),
 "C05": dict(engine="interval", category="model_checking", design_ref="5/C05",
   technique="TLC invariants Canonical/uniqueness on IntervalAlgebra + B1 replay comparing real result shapes with the unique canonical value + TLC trace validation (clauses canonical, eq_exact, is_empty, is_any)",
   text=IA + "invariants: every result is THE canonical value of its denotation, Eq <=> equal denotation, IsEmpty/IsAny exact, in every state of Pairs and of the Session reachability machine; the real results' shapes, ==, is_empty(), is_any() are compared with the specification per replayed transition and per recorded session event.",
   note="Same bounds and trusted base as C01."),
 "C13": dict(engine="interval", category="model_checking", design_ref="5/C13",
   technique="TLC invariants on the modelled __eq__/__hash__ (EqSymmetric, EqImpliesHash, EqExact over all pairs; laws) + B1/B3 observation of ==, hash on real objects",
   text=IA + "the hand-written __eq__/__hash__ of the four specifier classes are modelled as written and checked to be an equivalence compatible with hashing over all pairs; on the real objects every replayed vector and every session register logs == in both directions, reflexivity and hash equality against all earlier registers (clauses eq_symmetric, eq_reflexive, eq_transitive, eq_implies_hash).",
   note="Marker objects: recorded marker sessions log ==, hash against all earlier registers (clauses eq_symmetric/transitive/eq_implies_hash/eq_but_different_meaning) and interchange scripts combine two equal spellings of an atom with the same partner with the memo caches emptied in between. Hash collisions are ignored (HashEq is modelled as key equality)."),
 "C14": dict(engine="interval", category="model_checking", design_ref="5/C14",
   technique="TLC model checking of the Laws configuration (all triples, 15 laws as equality of returned values) + law scripts replayed on real objects (B1) and recorded law sessions validated by TLC (B3)",
   text=IA + "Laws configuration: every triple of values over N=2 bounds, 15 laws, both sides equal under the modelled __eq__ and hash; on the real library the same laws are evaluated on sampled triples of the TLC-enumerated N=3 values under two embeddings, and law sessions over arbitrary version shapes are validated by TLC (clause law sides == in both directions).",
   note="Oracle-free: the law itself decides. Markers: law scripts in recorded sessions, both sides must have equal truth tables (TLC clause per law)."),
 "C19": dict(engine="generic", category="model_checking", design_ref="5/C19",
   technique="TLC model checking of GenericSpec (complete literal pool) + exhaustive transition replay into GenericSpecifier with membership of every candidate through `in`",
   text="TLA+ spec GenericSpec transcribes the sorted-operator case table of GenericSpecifier.__and__/__or__/__invert__ over literals that are letter sequences (so equal/substring/superstring/disjoint/empty relations are computed); TLC checks Exact (answer denotes the intersection/union/complement wherever the table answers) over all 3600 ordered pairs; every dumped transition is executed on the real class under three fragment renderings and the membership of all 31 candidates through `in` (also on returned Empty/Any specifiers) is compared with the specification's exact set.",
   note="Pool: literals of length<=3 over two letters, candidates length<=4; complete within the pool. A real NotImplementedError where the table answers is allowed by the statement and only counted as drift."),
 "C09": dict(engine="platform", category="model_checking", design_ref="5/C09",
   technique="TLC model checking of PlatformTags over the complete configuration grid (transcribed generation loops = declarative PEP 600/656/macOS sets in priority order) + replay of every configuration into Platform.compatible_tags / EnvSpec.compatibility + cross-check of the meaning layer against packaging.tags",
   text="TLA+ spec PlatformOps/PlatformTags has a declarative tag set with a priority order per configuration (meaning) and a transcription of Platform.compatible_tags, Arch floors/formats and EnvSpec._evaluate_platform (algorithm); TLC checks TagsExact and ScoreOrder on all 466 configurations of the stated grid; each configuration's list and per-tag scores (repeated calls on one EnvSpec) are compared with the real code, and the declarative lists with packaging.tags (glibc/musl probes stubbed; disagreement = spec error, exit 2).",
   note="Complete for the stated grid. fat* formats filtered. One known finding: macOS 10.x on arm64 (known_findings.json)."),
 "C08": dict(engine="wheel", category="model_checking", design_ref="5/C08",
   technique="TLC model checking of WheelCompat/Decide (transcribed _evaluate_python on digit sequences + interval algebra vs the declarative 'some admitted interpreter can load it') + replay of every (requires_python, setting, tag pair) into EnvSpec.compatibility",
   text="TLA+ spec WheelOps/WheelCompat: Python versions are points of the interval algebra (series boundaries for majors 2-3, minors 0-21, 4.0 and inner points); requires_python ranges over every union of the cells cut by selected bounds (holes, bounds inside a series); the tag universe has py/cp/pp tags with none/abi3/own/m/t/foreign/other-minor/digit-prefix ABIs; TLC checks DecisionExact (algorithm = meaning incl. score) for every state; every state x tag pair is executed on the real EnvSpec and compared with the meaning layer; compressed multi-tag wheels are checked to be the max over combinations.",
   note="Quick: 128 requires_python x 4 settings x 360 tag pairs; thorough adds all minors 0-20 and a 5-bound family. abi3 on non-cp tags / free-threaded targets is outside the statement (don't care)."),
 "C16": dict(engine="wheel", category="model_checking", design_ref="5/C16",
   technique="TLC model checking of WheelCompat/Widen, EnvCompare/Cmp and PlatformTags/Pairs + replay of every pair into EnvSpec.compatibility / compare / Platform.compatible_tags",
   text="Three exhaustive pair spaces: (rp, rp2) of the requires_python family with Den(rp) subset of Den(rp2) x settings x tag universe (WideningKeepsWheels); all ordered pairs of an EnvSpec grid (requires_python x platform-or-none x implementation/gil-or-none) with the transcribed compare() (CompareLaws: reflexive, INCOMPATIBLE symmetric, never HIGHER both ways, LE/HIGHER imply tag-set nesting); all ordered pairs of the platform grid (Monotone, CompareConsistent).  Every pair is replayed on the real objects.",
   note="Quick uses sub-grids (27 889 platform pairs, 104 976 EnvSpec pairs); thorough the full platform grid."),
 "C18": dict(engine="wheel", category="exploration", design_ref="5/C18",
   technique="TLA+ specs WheelName / PlatformTags(NamesRoundTrip) as structural generator + reference, model-checked by TLC; every generated name rendered and compared with packaging.utils.parse_wheel_filename / Platform.parse",
   text="WheelName.tla models file names as token sequences (words, DASH, DOT) and checks that 'last three of 5 or 6 dash-separated fields, split on dots' recovers the three tag sets and that malformed names are rejected; every modelled name is rendered with concrete tags and checked on parse_wheel_tags / wheel_compatibility against packaging; Platform.parse(str(p)) == p for the whole platform grid, multi-digit versions, architectures with underscores, aliases and choices().",
   note="Character-level parsing (regular expressions) is only exercised, not modelled: level exploration."),
 "C04": dict(engine="pep440", category="model_checking", design_ref="5/C04",
   technique="TLC model checking of Pep440/Clauses (translation of every clause vs PEP 440 clause semantics on structured versions) + three-way replay (specification, packaging, dep-logic `in`/contains) of every clause in 13 spellings + membership replay of every IntervalAlgebra Pairs transition and of simulated Session behaviours + TLC trace validation of sessions with leaf tables from packaging",
   text="Pep440.tla has versions as structures with the PEP 440 order and clause semantics (meaning) and the code's clause->range translation (algorithm); TLC checks ClauseExact for every operator x bound shape (epoch, pre, post, dev, 1-2 release segments; thorough: 3 segments) against all final candidates.  Each clause is rendered in up to 13 spellings (c/pre/preview, -1/.rev1/.r1, attached/underscore separators, upper case, leading v, zero padding) and evaluated by packaging and by dep-logic, also after passing the value through &, | and ~~ so that the answer comes from the bounds and not from the remembered source text.  The whole algebra is covered by replaying every Pairs transition of IntervalAlgebra (plus a second step on the real result) and simulated Session behaviours with `in` asked at every probe version, and by sessions whose candidate tables are validated by TLC as Boolean combinations of packaging's leaf tables.",
   note="Final-release candidates only (as the property states). packaging is the reference; a disagreement between the specification and packaging is a specification error (exit 2)."),
 "C06": dict(engine="pep440", category="model_checking", design_ref="5/C06",
   technique="TLC model checking of Pep440/Render (transcribed _simplified_form heuristics of RangeSpecifier/UnionSpecifier: every range and every hole over the structured version universe parses back to itself) + replay of every vector through str()/parse + TLC trace validation of reparse events in sessions",
   text="The rendering heuristics (==, ~=, !=V, !=X.*, plain two-clause form) are transcribed on structured versions; TLC checks RenderRoundTrips for every ordered pair of bounds of the universe (192 versions: epochs, pre/post/dev, 1-2 release segments; thorough: 3 segments) x inclusivity x {range, hole}; every vector is built on the real classes, rendered and re-parsed (== in both directions).  Values that only arise from operator chains (with or without a remembered source text) are covered by reparse events in recorded sessions validated by TLC.",
   note="One recorded finding (~= with a post-release upper bound; pinned by the repository's own test) is modelled as the code behaves and excluded by name from the invariant."),
 "C17": dict(engine="pep440", category="exploration", design_ref="5/C17",
   technique="Pep440.tla as structural generator (TLC-enumerated clauses) rendered in 13 spellings, random comma/||-joined sets and 14 named near-miss mutations; reference verdict = packaging.SpecifierSet",
   text="Every clause of the TLC-enumerated Pep440 universe in every applicable spelling, thousands of random sets joined by ',' and '||', `<empty>`, and mutated near-miss strings are given to parse_version_specifier / from_specifierset: accepted by packaging => a specifier must be returned; rejected by packaging => InvalidSpecifier and nothing else.",
   note="Character-level grammar is exercised, not modelled (level exploration). `+local` and `===` strings are skipped as the statement says."),
 "C02": dict(engine="marker", category="model_checking", design_ref="5/C02",
   technique="TLC trace validation of recorded marker sessions against MarkerSessionTrace (clauses and_table / or_table / is_empty / is_any on truth tables)",
   text="recorded marker sessions (parse / & / | / reparse / only / exclude / without_extras / law scripts on earlier results) with truth tables from the real evaluate() over the session's region grid, validated event by event by TLC against MarkerSessionTrace (total trace specification, clause-level attribution).  For C02 every & and | event must have exactly the pointwise conjunction / disjunction of its operands' tables, an is_empty() result an all-false table and an is_any() result an all-true one; operands are earlier results, so merged atoms, ==/!= groups, cnf/dnf candidates and multi-valued extras are exercised as they arise.",
   note="The oracle is the property itself (results against operands, both through evaluate(), which C03 binds to packaging).  Grids above 96 environments are sampled; a mismatch on a grid environment is always a genuine counterexample.  Known finding: in-list substring semantics."),
 "C03": dict(engine="markersem", category="model_checking", design_ref="5/C03",
   technique="TLC model checking of MarkerSemantics (PEP 508 Eval over a finite environment grid) + three-way replay (specification table, packaging.markers.Marker, dep_logic) of every atom and of depth-2 and/or trees + TLC trace validation of parse events against packaging tables",
   text="MarkerSemantics.tla defines Eval: version-valued variables through the PEP 440 clause semantics of Pep440Ops in BOTH operand orders, in/not in as substring containment on character sequences, string atoms on letter sequences, extra by PEP 685 classes, `name in extras` for set-valued extras.  TLC evaluates every atom of the alphabet (330) on 1260 environments and 12 246 depth-2 trees on 315; every table is compared with packaging (disagreement = specification error, exit 2) and with dep_logic's parse_marker(text).evaluate(env) (disagreement = violation).  Parse events of recorded sessions carry packaging's table as well.",
   note="Environment versions are final releases X.Y.Z.  Reference = installed packaging 26.3."),
 "C07": dict(engine="marker", category="model_checking", design_ref="5/C07",
   technique="TLC trace validation of recorded marker sessions (every produced register is rendered and re-parsed: clauses reparse_table, packaging_rejects_text, empty_token_inside, empty/any round trip, raises)",
   text="recorded marker sessions (parse / & / | / reparse / only / exclude / without_extras / law scripts on earlier results) with truth tables from the real evaluate() over the session's region grid, validated event by event by TLC against MarkerSessionTrace (total trace specification, clause-level attribution).  For C07 every register produced by parse/&/|/only/exclude/without_extras is followed by a reparse event: str() must not raise, parse_marker and packaging.Marker must accept the text, the re-parsed marker must have the same truth table, `<empty>` may only be the whole text.",
   note="Same grids and trusted base as C02."),
 "C11": dict(engine="markersem", category="model_checking", design_ref="5/C11",
   technique="TLC model checking of MarkerSemantics (ViewExact: transcribed _get_specifier view = Eval; FromSpecExact: transcribed from_specifier incl. zero padding) + replay of every atom / range into marker.specifier and MarkerExpression.from_specifier",
   text="For every python_version / python_full_version atom (9 operators x 6 literals x both operand orders, in/not in lists) and every grid value, TLC checks that the specifier view admits exactly the values on which the atom evaluates true, and for every simple range over the literal pool that from_specifier yields None or an atom true exactly on the range; each vector is replayed on the real marker.specifier / from_specifier / evaluate.",
   note="Known finding: in-list substring vs set-of-series (named deviation ListViewIsSetOfSeries in the specification)."),
 "C12": dict(engine="marker", category="model_checking", design_ref="5/C12",
   technique="TLC trace validation of recorded marker sessions (clauses only_leaks_variable, only_not_implied, only_changes_meaning, exclude_leaks_variable, exclude_changes_meaning)",
   text="recorded marker sessions (parse / & / | / reparse / only / exclude / without_extras / law scripts on earlier results) with truth tables from the real evaluate() over the session's region grid, validated event by event by TLC against MarkerSessionTrace (total trace specification, clause-level attribution).  For C12 results are projected with only(names) for subsets of the session's variables, exclude(name) and without_extras(); the variables occurring anywhere in the real result tree and its truth table are logged and TLC checks: no leaked variable, implication m => only(m), identity when m mentions only the kept / not the removed names.",
   note="Same grids and trusted base as C02."),
 "C15": dict(engine="marker", category="model_checking", design_ref="5/C15",
   technique="TLC trace validation of recorded marker sessions (clause normal_form: recursive NormalForm predicate on the logged shape tree; flags_vs_shape)",
   text="recorded marker sessions (parse / & / | / reparse / only / exclude / without_extras / law scripts on earlier results) with truth tables from the real evaluate() over the session's region grid, validated event by event by TLC against MarkerSessionTrace (total trace specification, clause-level attribution).  For C15 the shape tree of every result (classes, atom groups with their value counts, children with their renderings) is logged and TLC evaluates the recursive NormalForm predicate (>= 2 pairwise distinct children, none empty/any/same kind, groups of >= 2 values) and is_empty()/is_any() against the shape.",
   note="One recorded finding: one-child MultiMarker produced by union_simplify (repair breaks a pinned ordering test)."),
}

def cmd(pid, tier): return f"./check {pid} --tier {tier}"
checks = []
for pid in ids:
    if pid not in CLAIMED: continue
    c = CLAIMED[pid]
    checks.append({"property_id": pid, "quick_cmd": cmd(pid, "quick"), "thorough_cmd": cmd(pid, "thorough"),
                   "evidence_file": f"/verif/evidence/{pid}.json", "replay_cmd_template": f"./check {pid} --replay {{path}}",
                   "engine": c["engine"], "level_claimed": {"category": c["category"], "text": c["text"], "design_ref": c["design_ref"]},
                   "level_note": c["note"], "technique": c["technique"]})
NA_REASON = {}
na = [{"property_id": p, "reason": NA_REASON.get(p, "engine not built yet in this round (DESIGN.md section 8 build order); will be claimed once its check exists")} for p in ids if p not in CLAIMED]
engines = [
 {"name": "interval", "path": "harness/check_interval.py + specs/IntervalOps.tla, IntervalAlgebra.tla, SpecSessionTrace.tla", "serves_properties": ["C01", "C05", "C13", "C14"],
  "kind_free_text": "TLC model checking + spec->code transition replay + code->spec trace validation"},
 {"name": "platform", "path": "harness/check_platform.py + specs/PlatformOps.tla, PlatformTags.tla", "serves_properties": ["C09"], "kind_free_text": "TLC model checking of the full grid + replay + packaging cross-check"},
 {"name": "wheel", "path": "harness/check_wheel.py + specs/WheelOps.tla, WheelCompat.tla, EnvCompare.tla, WheelName.tla", "serves_properties": ["C08", "C16", "C18"], "kind_free_text": "TLC model checking + exhaustive state replay"},
 {"name": "pep440", "path": "harness/check_pep440.py + specs/Pep440.tla (+ IntervalAlgebra, SpecSessionTrace)", "serves_properties": ["C04", "C06", "C17"], "kind_free_text": "TLC model checking + replay in many spellings + trace validation"},
 {"name": "marker", "path": "harness/check_marker.py, drive_marker.py + specs/MarkerSessionTrace.tla", "serves_properties": ["C02", "C07", "C12", "C15", "C13", "C14"], "kind_free_text": "recorded sessions on the real library validated by TLC (trace validation)"},
 {"name": "markersem", "path": "harness/check_markersem.py + specs/MarkerSemantics.tla, Pep440Ops.tla", "serves_properties": ["C03", "C11"], "kind_free_text": "TLC model checking + three-way replay against packaging"},
 {"name": "generic", "path": "harness/check_generic.py + specs/GenericSpec.tla", "serves_properties": ["C19"], "kind_free_text": "TLC model checking + exhaustive transition replay"},
]
m = {"version": 1, "setup_cmd": "./setup.sh",
     "hooks": {"guard": "DEP_LOGIC_VERIF", "enable": "no source hooks are needed: the abstract state is observed through the public API; checks import dep_logic from /repo/src of the current working tree (PYTHONPATH), so no rebuild step exists",
               "baseline_off_cmd": "cd /repo && /venv/bin/python -m pytest -ra -q -p no:cacheprovider --timeout=900 --continue-on-collection-errors",
               "source_commits": [], "add_only": True},
     "engines": engines, "checks": checks, "not_applicable": na,
     "notes": "Exit codes: 0 held, 1 violation (VIOLATION line), 2 machinery failure. known_findings.json lists recorded findings and fixed defects. See DESIGN.md."}
json.dump(m, open(os.path.join(V, "MANIFEST.json"), "w"), indent=1)
print("claimed:", sorted(CLAIMED), "not claimed:", [x["property_id"] for x in na])
