#!/usr/bin/env python3
"""Print the markdown table of DESIGN.md section 11 from /verif/seeded/*/meta.json."""
import json, os
base = "/verif/seeded"
rows = []
for d in sorted(os.listdir(base)):
    mp = os.path.join(base, d, "meta.json")
    if not os.path.exists(mp):
        continue
    m = json.load(open(mp))
    summ = (m.get("summary") or "").replace("|", "\\|").replace("\n", " ")
    if len(summ) > 150:
        summ = summ[:147] + "..."
    if d.startswith("benign"):
        codes = m.get("check_exit_codes", {})
        rows.append(f"| {d} | {summ} | behaviour-preserving refactoring | - | {'all ' + str(len(codes)) + ' checks silent' if m.get('silent') else 'ALARM: ' + ','.join(k for k, v in codes.items() if v)} |")
        continue
    if not m.get("applies_at_head", True):
        status = "obsolete (edited code was replaced by a fix: commit)"
        det = "-"
        miss = "-"
    elif not m.get("confirmed", False):
        st = m.get("status", "")
        status = st[:160] if st.startswith("obsolete") else "no longer a defect at HEAD (demo passes with the patch: the code path it edits is dead after fix 8cc8e02)"
        det = "-"
        miss = "-"
    else:
        status = m.get("status", "")
        det = ", ".join(m.get("detected_by", [])) or "-"
        miss = ", ".join(m.get("missed_by", [])) or "-"
    rows.append(f"| {d}{' (ported)' if m.get('ported') else ''} | {summ} | {status} | {det} | {miss} |")
print("| seeded change | what it changes | status | detected by | also run, silent |")
print("|---|---|---|---|---|")
print("\n".join(rows))
