#!/usr/bin/env python3
"""Automatic mutation run: single-token mutants of dep_logic that SURVIVE the repository's own test-suite are
given to the relevant quick checks; the report says which were detected.  Survivors that no check detects are
either equivalent mutants or gaps - they are listed for triage (/verif/mutation/slot<k>.json).

usage: tools/mutate.py <slot> <nslots> [max_per_file]     (run several slots in parallel)
"""
import json
import os
import re
import subprocess
import sys

FILES = {
    "src/dep_logic/specifiers/range.py": ["C01", "C05", "C04", "C06", "C14", "C13", "C11"],
    "src/dep_logic/specifiers/union.py": ["C01", "C05", "C06", "C04", "C14", "C13", "C11"],
    "src/dep_logic/specifiers/special.py": ["C01", "C05", "C13", "C19", "C04"],
    "src/dep_logic/specifiers/__init__.py": ["C04", "C17", "C06"],
    "src/dep_logic/specifiers/generic.py": ["C19", "C02"],
    "src/dep_logic/markers/single.py": ["C02", "C03", "C11", "C15", "C07", "C13"],
    "src/dep_logic/markers/multi.py": ["C02", "C15", "C12", "C07", "C14"],
    "src/dep_logic/markers/union.py": ["C02", "C15", "C12", "C07", "C14"],
    "src/dep_logic/markers/__init__.py": ["C03", "C07", "C10"],
    "src/dep_logic/utils.py": ["C02", "C15", "C06", "C13", "C03", "C10"],
    "src/dep_logic/tags/tags.py": ["C08", "C16", "C18", "C09"],
    "src/dep_logic/tags/platform.py": ["C09", "C16", "C18"],
}
RULES = [
    (r"(?<![<>=!])<=(?!=)", "<"), (r"(?<![<>=!-])>=(?!=)", ">"), (r"(?<![<>=!-])<(?![<=])", "<="), (r"(?<![<>=!-])>(?![>=])", ">="),
    (r"==", "!="), (r"!=", "=="), (r"\band\b", "or"), (r"\bor\b", "and"), (r"\bnot ", ""), (r"\bTrue\b", "False"), (r"\bFalse\b", "True"),
    (r"\binclude_min\b", "include_max"), (r"\binclude_max\b", "include_min"), (r"\.min\b", ".max"), (r"\.max\b", ".min"),
    (r"\breturn self\b", "return other"), (r"\breturn other\b", "return self"), (r"\bis_any\(\)", "is_empty()"), (r"\bis_empty\(\)", "is_any()"),
    (r" \+ 1\b", " + 2"), (r" - 1\b", " - 2"), (r"\bcontinue\b", "break"), (r"\bany\(", "all("), (r"\ball\(", "any("),
    (r"\bthis\b", "that"), (r"\bthat\b", "this"), (r"\bmarker1\b", "marker2"), (r"\bself\.values\b", "other.values"),
    (r"\b17\b", "16"), (r"\b5\b", "6"), (r"\b12\b", "13"), (r"\b10\b", "11"), (r"\b16\b", "15"), (r"\b3\b", "4"),
]


def sh(cmd, **kw):
    return subprocess.run(cmd, shell=True, capture_output=True, text=True, **kw)


def mutants_of(path, text):
    out = []
    lines = text.split("\n")
    in_doc = False
    for i, line in enumerate(lines):
        st = line.strip()
        if st.startswith('"""') or st.endswith('"""') and st.count('"""') == 1:
            in_doc = not in_doc if st.count('"""') == 1 else in_doc
            continue
        if in_doc or not st or st.startswith("#") or st.startswith("import") or st.startswith("from ") or st.startswith("@") or st.startswith("def ") or st.startswith("class "):
            continue
        if "raise " in st or "__all__" in st or '"""' in st or "TYPE_CHECKING" in st:
            continue
        code = line.split("#")[0]
        for k, (pat, rep) in enumerate(RULES):
            for m in re.finditer(pat, code):
                new = line[:m.start()] + rep + line[m.end():]
                if new != line:
                    out.append((i, k, m.start(), new))
    return out


def main():
    slot, nslots = int(sys.argv[1]), int(sys.argv[2])
    cap = int(sys.argv[3]) if len(sys.argv) > 3 else 10 ** 9
    wt = f"/tmp/wt/mut{slot}"
    sh(f"git -C /repo worktree remove --force {wt}")
    sh(f"git -C /repo worktree add -q --detach {wt} HEAD")
    env = dict(os.environ, PYTHONHASHSEED="0", PYTHONPATH=f"{wt}/src")
    results = []
    os.makedirs("/verif/mutation", exist_ok=True)
    outp = f"/verif/mutation/slot{slot}.json"
    n = 0
    for path, checks in FILES.items():
        text = open(f"{wt}/{path}").read()
        muts = mutants_of(path, text)
        # deterministic thinning: keep every j-th mutant so that all files get a share
        step = max(1, len(muts) // cap)
        muts = muts[::step][:cap]
        for (i, k, col, new) in muts:
            n += 1
            if n % nslots != slot:
                continue
            lines = text.split("\n")
            old = lines[i]
            lines[i] = new
            open(f"{wt}/{path}", "w").write("\n".join(lines))
            rec = {"file": path, "line": i + 1, "old": old.strip(), "new": new.strip()}
            try:
                py = sh("/venv/bin/python -c 'import dep_logic.markers, dep_logic.specifiers, dep_logic.tags'", cwd=wt, env=env)
                if py.returncode != 0:
                    rec["status"] = "does-not-import"
                    continue
                t = sh("timeout 600 /venv/bin/python -m pytest -q -p no:cacheprovider tests 2>&1 | tail -1", cwd=wt, env=env).stdout.strip()
                if not t.startswith("2 failed, 2477 passed"):
                    rec["status"] = "killed-by-repo-tests"
                    continue
                rec["status"] = "SURVIVES-ALL-CHECKS"
                rec["checks"] = {}
                for chk in checks:
                    r = sh(f"./check {chk}", cwd="/verif", env=dict(os.environ, DEP_LOGIC_SRC=f"{wt}/src"))
                    rec["checks"][chk] = r.returncode
                    if r.returncode == 1:
                        first = [l for l in r.stdout.splitlines() if l.startswith("  " + chk + ":")][:1]
                        rec["status"] = "detected"
                        rec["by"] = chk
                        rec["first"] = first[0].strip()[:200] if first else ""
                        break
            finally:
                open(f"{wt}/{path}", "w").write(text)
                if rec.get("status") != "does-not-import":
                    results.append(rec)
                    json.dump(results, open(outp, "w"), indent=1)
                print(slot, n, rec.get("status"), path, i + 1, rec["new"][:70], flush=True)
    sh(f"git -C /repo worktree remove --force {wt}")


if __name__ == "__main__":
    main()
