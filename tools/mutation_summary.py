#!/usr/bin/env python3
"""Totals of /verif/mutation/slot*.json (tools/mutate.py) and the list of survivors, for DESIGN.md."""
import collections
import glob
import json
c = collections.Counter()
by = collections.Counter()
surv = []
for f in sorted(glob.glob("/verif/mutation/slot*.json")):
    for r in json.load(open(f)):
        c[r["status"]] += 1
        if r["status"] == "detected":
            by[r["by"]] += 1
        if r["status"] == "SURVIVES-ALL-CHECKS":
            surv.append(r)
print(dict(c), "detected by:", dict(by))
for r in sorted(surv, key=lambda r: (r["file"], r["line"])):
    print(f"{r['file'].split('dep_logic/')[-1]}:{r['line']}  {r['old'][:80]}  =>  {r['new'][:80]}")
