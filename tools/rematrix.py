#!/usr/bin/env python3
"""Re-run the stored seeded changes (/verif/seeded/Cxx-*/) against the CURRENT checks and /repo HEAD and rewrite their
meta.json (summary / needs are kept).  usage: tools/rematrix.py <slot> <nslots>"""
import json
import os
import subprocess
import sys

sys.path.insert(0, os.path.dirname(__file__))
from seed_matrix import EXTRA, sh  # noqa: E402

DST = "/verif/seeded"


def main():
    slot, nslots = int(sys.argv[1]), int(sys.argv[2])
    only = sys.argv[3:]
    names = sorted(d for d in os.listdir(DST) if d.startswith("C") and os.path.exists(f"{DST}/{d}/patch.diff"))
    import re
    pat = os.environ.get("REMATRIX_FILTER")
    if pat:
        names = [d for d in names if re.search(pat, d)]
    names = [d for i, d in enumerate(names) if i % nslots == slot and (not only or d in only)]
    head = sh("git -C /repo rev-parse --short HEAD").stdout.strip()
    wt = f"/tmp/wt/rematrix{slot}"
    sh(f"git -C /repo worktree remove --force {wt}")
    sh(f"git -C /repo worktree add -q --detach {wt} HEAD")
    env = dict(os.environ, PYTHONHASHSEED="0", PYTHONPATH=f"{wt}/src")
    for d in names:
        pid = d[:3]
        dd = f"{DST}/{d}"
        old = json.load(open(f"{dd}/meta.json"))
        if str(old.get("status", "")).startswith("obsolete"):
            print(d, "kept:", old["status"][:60], flush=True)
            continue
        out = {"property": pid, "variant": old.get("variant", d.split("-")[-1]), "repo_head": head, "summary": old.get("summary", ""),
               "needs": old.get("needs", ""), "ported": old.get("ported", False)}
        ran = []
        sh(f"git -C {wt} checkout -- .")
        applies = sh(f"git -C {wt} apply --check {dd}/patch.diff").returncode == 0
        out["applies_at_head"] = applies
        if not applies:
            out["status"] = "obsolete: the code this change edits was replaced by a fix: commit; not portable"
            ran.append(f"git apply --check patch.diff -> does not apply at {head}")
        else:
            r0 = sh(f"/venv/bin/python {dd}/demo.py", cwd=wt, env=env).returncode if os.path.exists(f"{dd}/demo.py") else -1
            sh(f"git -C {wt} apply {dd}/patch.diff")
            r1 = sh(f"/venv/bin/python {dd}/demo.py", cwd=wt, env=env).returncode if os.path.exists(f"{dd}/demo.py") else -1
            suite = sh("/venv/bin/python -m pytest -q -p no:cacheprovider tests 2>&1 | tail -1", cwd=wt, env=env).stdout.strip()
            ran += [f"demo.py on unmodified HEAD {head}: exit {r0}", f"demo.py with patch: exit {r1}", f"pytest with patch: {suite}"]
            out["confirmed"] = (r0 == 0 and r1 != 0 and suite.startswith("2 failed, 2477 passed"))
            out["detected_by"], out["missed_by"] = [], []
            try:
                prior = [c for c in old.get("detected_by", []) if c != pid] if old.get("status") != "detected" else []
                for chk in [pid] + (prior or ([] if os.environ.get("REMATRIX_OWN_ONLY") else EXTRA.get(pid, []))):
                    r = sh(f"./check {chk}", cwd="/verif", env=dict(os.environ, DEP_LOGIC_SRC=f"{wt}/src"))
                    viol = [l for l in r.stdout.splitlines() if l.startswith("  " + chk + ":")][:1]
                    ran.append(f"./check {chk} with patch: exit {r.returncode}" + (f" first: {viol[0].strip()[:200]}" if viol else ""))
                    (out["detected_by"] if r.returncode == 1 else out["missed_by"]).append(chk)
                    if r.returncode == 2:
                        out.setdefault("machinery_failure", []).append(chk)
            finally:
                sh(f"git -C {wt} checkout -- .")
            out["status"] = "detected" if pid in out["detected_by"] else ("detected-by-other" if out["detected_by"] else "MISSED")
            if not out["confirmed"]:
                out["status"] = old.get("status", out["status"]) if str(old.get("status", "")).startswith("obsolete") else out["status"] + " (demo no longer distinguishes at HEAD)"
        out["ran"] = ran
        json.dump(out, open(f"{dd}/meta.json", "w"), indent=1)
        print(d, out["status"], "detected_by=", out.get("detected_by"), "missed_by=", out.get("missed_by"), "mf=", out.get("machinery_failure"), flush=True)
    sh(f"git -C /repo worktree remove --force {wt}")


if __name__ == "__main__":
    main()
