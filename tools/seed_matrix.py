#!/usr/bin/env python3
"""Confirm every seeded change (scratch worktree of /repo HEAD), run the checks against it with the patch
applied to /repo (always reverted), and store it under /verif/seeded/<Cxx>-<A|B>/.

usage: tools/seed_matrix.py [Cxx/A ...]     (default: everything under /tmp/seed_out)
"""
import json
import os
import shutil
import subprocess
import sys

SRC = os.environ.get("SEED_SRC", "/tmp/seed_out")
TAG = os.environ.get("SEED_TAG", "")          # e.g. "r2-" for second-round seeds
DST = "/verif/seeded"
EXTRA = {  # other checks worth running for a seed besides its own property
    "C01": ["C05", "C14", "C04"], "C05": ["C01", "C14"], "C14": ["C01", "C02"], "C04": ["C01", "C05"], "C13": ["C02", "C10", "C06"],
    "C06": ["C04"], "C17": ["C04"], "C08": ["C16"], "C16": ["C08"], "C09": ["C16"], "C18": [], "C19": ["C02"],
    "C02": ["C03", "C14"], "C03": ["C02"], "C07": ["C15", "C02"], "C15": ["C07", "C02"], "C12": ["C15", "C02"], "C11": ["C02"], "C10": ["C13"],
}


def sh(cmd, **kw):
    return subprocess.run(cmd, shell=True, capture_output=True, text=True, **kw)


def main():
    items = sys.argv[1:]
    if not items:
        for pid in sorted(os.listdir(SRC)):
            for x in ("A", "B"):
                if os.path.exists(f"{SRC}/{pid}/{x}/patch.diff"):
                    items.append(f"{pid}/{x}")
    head = sh("git -C /repo rev-parse --short HEAD").stdout.strip()
    wt = "/tmp/wt/matrix" + os.environ.get("MATRIX_SLOT", "")
    sh(f"git -C /repo worktree remove --force {wt}")
    sh(f"git -C /repo worktree add -q --detach {wt} HEAD")
    env = dict(os.environ, PYTHONHASHSEED="0", PYTHONPATH=f"{wt}/src")
    for it in items:
        pid, x = it.split("/")
        d = f"{SRC}/{pid}/{x}"
        patch = f"{d}/patch_ported.diff" if os.path.exists(f"{d}/patch_ported.diff") else f"{d}/patch.diff"
        ran = []
        sh(f"git -C {wt} checkout -- .")
        applies = sh(f"git -C {wt} apply --check {patch}").returncode == 0
        meta_in = {}
        try:
            meta_in = json.load(open(f"{d}/meta.json"))
        except Exception:
            pass
        out = {"property": pid, "variant": x, "repo_head": head, "summary": meta_in.get("summary", ""), "needs": meta_in.get("needs", ""),
               "ported": patch.endswith("patch_ported.diff"), "applies_at_head": applies}
        if not applies:
            out["status"] = "obsolete: the code this change edits was replaced by a fix: commit; not portable"
            ran.append(f"git apply --check {os.path.basename(patch)} -> does not apply at {head}")
        else:
            r0 = sh(f"/venv/bin/python {d}/demo.py", cwd=wt, env=env).returncode
            sh(f"git -C {wt} apply {patch}")
            r1 = sh(f"/venv/bin/python {d}/demo.py", cwd=wt, env=env).returncode
            suite = sh("/venv/bin/python -m pytest -q -p no:cacheprovider tests 2>&1 | tail -1", cwd=wt, env=env).stdout.strip()
            sh(f"git -C {wt} checkout -- .")
            ran += [f"demo.py on unmodified HEAD {head}: exit {r0}", f"demo.py with patch: exit {r1}", f"pytest with patch: {suite}"]
            out["confirmed"] = (r0 == 0 and r1 != 0 and suite.startswith("2 failed, 2477 passed"))
            out["detected_by"], out["missed_by"] = [], []
            # the checks import dep_logic from DEP_LOGIC_SRC: the patched scratch worktree (same effect as
            # applying the patch to /repo and reverting it, without blocking /repo)
            sh(f"git -C {wt} apply {patch}")
            try:
                for chk in [pid] + EXTRA.get(pid, []):
                    r = sh(f"./check {chk}", cwd="/verif", env=dict(os.environ, DEP_LOGIC_SRC=f"{wt}/src"))
                    viol = [l for l in r.stdout.splitlines() if l.startswith("  " + chk + ":")][:2]
                    ran.append(f"./check {chk} with patch: exit {r.returncode}" + (f" first: {viol[0].strip()[:200]}" if viol else ""))
                    (out["detected_by"] if r.returncode == 1 else out["missed_by"]).append(chk)
                    if r.returncode == 2:
                        out.setdefault("machinery_failure", []).append(chk)
            finally:
                sh(f"git -C {wt} checkout -- .")
            out["status"] = "detected" if pid in out["detected_by"] else ("detected-by-other" if out["detected_by"] else "MISSED")
        out["ran"] = ran
        dst = f"{DST}/{pid}-{TAG}{x}"
        os.makedirs(dst, exist_ok=True)
        shutil.copy(patch, f"{dst}/patch.diff")
        if os.path.exists(f"{d}/demo.py"):
            shutil.copy(f"{d}/demo.py", f"{dst}/demo.py")
        json.dump(out, open(f"{dst}/meta.json", "w"), indent=1)
        print(it, out["status"], "detected_by=", out.get("detected_by"), "missed_by=", out.get("missed_by"), flush=True)
    sh(f"git -C /repo worktree remove --force {wt}")


if __name__ == "__main__":
    main()
