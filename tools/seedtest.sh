#!/bin/sh
# usage: tools/seedtest.sh <patch.diff> <property-id>...   -- apply a seeded change to /repo, run checks, always revert
patch="$1"; shift
cd /repo || exit 2
git diff --quiet || { echo "/repo has uncommitted changes"; exit 2; }
git apply "$patch" || { echo "patch does not apply"; exit 2; }
for p in "$@"; do
  ( cd /verif && ./check "$p" > "/tmp/seedtest_$p.log" 2>&1; echo "$p exit=$? $(grep -c '^VIOLATION' /tmp/seedtest_$p.log) violations; $(grep '^VIOLATION' -B1 /tmp/seedtest_$p.log | head -2 | head -1)" )
done
git -C /repo checkout -- .
