#!/usr/bin/env python3
"""Splice the table printed by gen_seed_table.py into DESIGN.md section 11 (between the table header and the next blank line)."""
import subprocess
p = "/verif/DESIGN.md"
s = open(p).read()
hdr = "| seeded change | what it changes | status | detected by | also run, silent |"
i = s.index(hdr)
j = s.index("\n\n", i)
table = subprocess.run(["python3", "/verif/tools/gen_seed_table.py"], capture_output=True, text=True).stdout.strip()
assert table.startswith(hdr)
open(p, "w").write(s[:i] + table + s[j:])
print("rows:", table.count("\n") - 1)
